package c13

import (
	"bytes"
	"fmt"
	"io"
	"os"
	"path/filepath"
	"strings"
	"testing"

	"github.com/zerx-lab/wordZero/pkg/document"
	"github.com/zerx-lab/wordZero/pkg/style"
	"pgregory.net/rapid"

	"wzverif/internal/kit"
	"wzverif/internal/ops"
)

func TestMain(m *testing.M) {
	document.SetGlobalLevel(document.LogLevelSilent)
	kit.TestMain(m, 1800, 15000)
}

// Op is one call of the history: the shared op data plus the style argument of the style-API ops.
type Op struct {
	ops.Op
	St *StyleSpec `json:"st,omitempty"`
}

// Case is one generated history, optionally starting from a package from elsewhere.
type Case struct {
	Start *Start `json:"start,omitempty"`
	Ops   []Op   `json:"ops"`
}

// ---------------------------------------------------------------------------------------------
// generator

var (
	words     = []string{"alpha", "beta gamma", "x1", "中文标题", "é ñ", "a<b&c>d", "\"q\" 'v'", "Lorem ipsum", "42"}
	freshIDs  = append([]string{"MyA", "MyB", "MyC", "Custom1", "自定义", "my-style_2", "S.3"}, oddIDs...)
	overIDs   = []string{"Heading2", "Quote", "Normal", "Title", "Heading9"}
	styleName = []string{"my style", "Caption X", "名称", "A&B <x>", "n1", "long name with words"}
	bases     = []string{"", "", "Normal", "Heading1", "Quote", "nope"}
	colorsHex = []string{"", "FF0000", "2F5496", "00AA00"}
	fontNames = []string{"", "Arial", "宋体", "Times New Roman"}
	aligns    = []string{"", "center", "right", "both", "left"}
	templates = []string{"TableNormal", "TableGrid", "TableList", "TableColorful1", "TableColorful2", "TableColorful3", "TableColumns1", "TableColumns2",
		"TableColumns3", "TableRows1", "TableRows2", "TableRows3", "TablePlain1", "TablePlain2", "TablePlain3"}
	// note texts: the words, and the empty / whitespace-only texts a caller may well pass (a note without text)
	blankTexts = []string{"", "", " ", "\t", " \n "}
	// ids that name nothing in any document of a history
	unknownIDs = []string{"9999", "abc", "", "NoSuchStyle"}
	mdPieces   = []string{"# H1\n\n", "## H2\n\n", "### H3 deep\n\n", "plain paragraph\n\n", "> quoted words\n\n", "```\ncode line\n  indented\n```\n\n",
		"    indented code\n\n", "| a | b |\n|---|---|\n| 1 | 2 |\n\n", "- item\n- item two\n\n", "1. one\n2. two\n\n", "**bold** and *it*\n\n"}
)

// predefined styles a history may remove while they are unused
var removable = append([]string{"Title", "Subtitle", "ListParagraph", "Quote", "CodeBlock", "Emphasis", "Strong", "CodeChar", "ab",
	"Heading1", "Heading2", "Heading3", "Heading4", "Heading5", "Heading6", "Heading7", "Heading8", "Heading9"}, tocIDs...)

var weights = []struct {
	k string
	w int
}{
	{"para", 3}, {"heading", 6}, {"pstyle", 6},
	{"st.create", 3}, {"st.add", 4}, {"st.quick", 3}, {"st.mod", 4}, {"st.remove", 3},
	{"table", 3}, {"tblstyle", 4}, {"tblcustom", 1},
	{"toc", 1}, {"autotoc", 1}, {"updatetoc", 1},
	{"listitem", 3}, {"bullet", 1}, {"numbered", 1},
	{"footnote", 3}, {"endnote", 3}, {"fnrun", 2}, {"rej", 3}, {"header", 1}, {"footer", 1},
	{"save", 5}, {"reopen", 5}, {"md", 2}, {"render", 3}, {"swap", 1},
}

var kindPool = func() []string {
	var out []string
	for _, w := range weights {
		for i := 0; i < w.w; i++ {
			out = append(out, w.k)
		}
	}
	return out
}()

func word(t *rapid.T, l string) string { return rapid.SampledFrom(words).Draw(t, l) }

// noteText: the text of a note; a third of them are empty or blank
func noteText(t *rapid.T) string {
	if rapid.IntRange(0, 2).Draw(t, "blanknote") == 0 {
		return rapid.SampledFrom(blankTexts).Draw(t, "blank")
	}
	return word(t, "note")
}

func genSpec(t *rapid.T, full bool) *StyleSpec {
	s := &StyleSpec{Name: rapid.SampledFrom(styleName).Draw(t, "sname")}
	if rapid.IntRange(0, 7).Draw(t, "oddname") == 0 {
		s.Name = rapid.SampledFrom(oddNames).Draw(t, "oname")
	}
	switch rapid.IntRange(0, 6).Draw(t, "over") {
	case 0:
		s.ID = rapid.SampledFrom(overIDs).Draw(t, "oid")
	case 1:
		s.ID = rapid.SampledFrom(oddIDs).Draw(t, "oddid")
	default:
		s.ID = rapid.SampledFrom(freshIDs[:len(freshIDs)-len(oddIDs)]).Draw(t, "fid")
	}
	s.Type = rapid.SampledFrom([]string{"paragraph", "paragraph", "paragraph", "character", "table"}).Draw(t, "stype")
	s.BasedOn = rapid.SampledFrom(bases).Draw(t, "based")
	if rapid.IntRange(0, 3).Draw(t, "basedcustom") == 0 {
		s.BasedOn = rapid.SampledFrom(freshIDs).Draw(t, "basedid")
	}
	if full {
		s.Bold = rapid.Bool().Draw(t, "sb")
		s.Italic = rapid.Bool().Draw(t, "si")
		s.SizePt = rapid.SampledFrom([]int{0, 9, 12, 28, 1, 100}).Draw(t, "spt")
		s.Color = rapid.SampledFrom(colorsHex).Draw(t, "scol")
		s.Font = rapid.SampledFrom(fontNames).Draw(t, "sfont")
		s.Align = rapid.SampledFrom(aligns).Draw(t, "sal")
		s.Before = rapid.SampledFrom([]int{0, 6, 12}).Draw(t, "sbef")
		s.After = rapid.SampledFrom([]int{0, 3, 10}).Draw(t, "saft")
	}
	return s
}

func genOpOf(t *rapid.T, k string) Op {
	o := Op{}
	o.K = k
	sel := func() int { return rapid.IntRange(0, 50).Draw(t, "sel") }
	bl := func() bool { return rapid.Bool().Draw(t, "b") }
	switch k {
	case "para":
		o.S = []string{word(t, "text")}
	case "heading":
		o.S = []string{word(t, "text")}
		o.I = []int{rapid.IntRange(1, 9).Draw(t, "lvl")}
	case "pstyle":
		o.I = []int{sel(), sel()}
		o.B = []bool{bl()} // prefer a style that is not one of the predefined ones (created through the API / carried by the opened package)
	case "st.create":
		o.St = genSpec(t, false)
	case "st.add":
		o.St = genSpec(t, true)
	case "st.quick":
		o.St = genSpec(t, true)
		o.B = []bool{bl(), bl()} // has paragraph config, has run config
	case "st.mod":
		o.I = []int{sel(), rapid.IntRange(0, 5).Draw(t, "field")}
		o.S = []string{rapid.SampledFrom(styleName).Draw(t, "nn"), rapid.SampledFrom([]string{"", "Normal", "Title"}).Draw(t, "nb"),
			rapid.SampledFrom(colorsHex[1:]).Draw(t, "nc"), rapid.SampledFrom(aligns[1:]).Draw(t, "na")}
		// the second flag widens the candidates to every id the styles part of the opened document defines
		o.B = []bool{bl(), rapid.IntRange(0, 2).Draw(t, "modwide") == 0}
	case "st.remove":
		o.I = []int{sel()}
		// half of the removals name a predefined style (executed only while nothing uses it and nothing is based on it)
		if bl() {
			if bl() {
				o.S = []string{fmt.Sprintf("Heading%d", rapid.IntRange(1, 9).Draw(t, "rmh"))}
			} else {
				o.S = []string{rapid.SampledFrom(removable).Draw(t, "rmid")}
			}
		}
	case "table":
		o.I = []int{rapid.IntRange(1, 3).Draw(t, "rows"), rapid.IntRange(1, 3).Draw(t, "cols"), 0}
	case "tblstyle":
		o.I = []int{sel(), rapid.IntRange(0, 2).Draw(t, "mode"), sel()}
		o.S = []string{rapid.SampledFrom(templates).Draw(t, "tpl")}
		o.B = []bool{bl(), bl()}
	case "tblcustom":
		o.I = []int{sel()}
		o.S = []string{rapid.SampledFrom([]string{"TblA", "TblB", "表格样式"}).Draw(t, "tid"), rapid.SampledFrom(styleName).Draw(t, "tname")}
		o.B = []bool{bl(), bl(), bl()}
	case "toc", "autotoc":
		o.S = []string{word(t, "title")}
		o.I = []int{rapid.IntRange(1, 9).Draw(t, "max")}
		o.B = []bool{bl(), bl(), bl(), bl()}
	case "updatetoc":
	case "listitem":
		o.S = []string{word(t, "text")}
		o.I = []int{sel(), sel(), rapid.IntRange(0, 5).Draw(t, "start"), rapid.IntRange(0, 8).Draw(t, "lvl")}
	case "bullet", "numbered":
		o.S = []string{word(t, "text")}
		o.I = []int{rapid.IntRange(0, 8).Draw(t, "lvl"), sel()}
	case "footnote", "endnote":
		o.S = []string{word(t, "text"), noteText(t)}
		if rapid.IntRange(0, 7).Draw(t, "nobody") == 0 {
			o.S[0] = ""
		}
	case "fnrun":
		// AddFootnoteToRun on a run of an existing body paragraph
		o.I = []int{sel(), sel()}
		o.S = []string{noteText(t)}
	case "rej":
		// a call with a nil config, an unknown id or an out-of-range value (see rejectKinds)
		o.I = []int{rapid.IntRange(0, len(rejectKinds)-1).Draw(t, "rejkind"), sel()}
		o.S = []string{rapid.SampledFrom(unknownIDs).Draw(t, "unknown"), word(t, "text")}
	case "header", "footer":
		o.I = []int{sel()}
		o.S = []string{word(t, "text")}
	case "save":
		o.B = []bool{rapid.IntRange(0, 3).Draw(t, "viafile") == 0}
	case "reopen":
		o.B = []bool{rapid.IntRange(0, 3).Draw(t, "viafile") == 0, bl()} // through a file, in a fresh process (registries reset)
	case "render":
		// the current document is loaded as the base document of a template and rendered: no arguments
	case "swap":
		// the other document object becomes the current one (the first swap creates it: new / opened from a save of this one)
		o.B = []bool{bl()}
	case "md":
		n := rapid.IntRange(1, 6).Draw(t, "mdn")
		var b strings.Builder
		for i := 0; i < n; i++ {
			b.WriteString(rapid.SampledFrom(mdPieces).Draw(t, "mdp"))
		}
		o.S = []string{b.String()}
		o.B = []bool{true, true, false, false, false, bl()}
		o.I = []int{rapid.IntRange(1, 4).Draw(t, "toc")}
	default:
		panic("c13 gen: unknown kind " + k)
	}
	return o
}

// scenario tails: the multi-step shapes the property is about
var tails = [][]string{
	{"save", "st.add", "pstyle", "save"},
	{"st.add", "pstyle", "save", "st.mod", "save"},
	{"st.quick", "save", "reopen", "st.create", "pstyle"},
	{"listitem", "numbered", "bullet", "reopen", "listitem"},
	{"footnote", "footnote", "endnote", "reopen", "footnote"},
	{"heading", "heading", "autotoc", "save", "heading", "updatetoc"},
	{"heading", "toc", "reopen", "heading", "toc"},
	{"table", "tblstyle", "save", "tblcustom"},
	{"st.add", "save", "st.remove", "st.add", "save"},
	{"md", "st.add", "pstyle", "save", "heading"},
	{"heading", "listitem", "footnote", "save", "reopen", "heading", "listitem", "endnote"},
	// a document that came into being by rendering a template base with its own definitions, then extended
	{"listitem", "reopen", "bullet", "render", "numbered"},
	{"footnote", "endnote", "reopen", "footnote", "render", "endnote", "footnote"},
	{"listitem", "footnote", "render", "listitem", "endnote", "save"},
	{"numbered", "endnote", "render", "bullet", "footnote", "render", "listitem"},
	{"st.add", "pstyle", "render", "heading", "save"},
	{"reopen", "listitem", "footnote", "render", "listitem", "endnote", "reopen", "numbered"},
}

// startSchemes: how the ids of the start package's styles part relate to the ids the library emits: the same (none),
// localised numbers/letters (zh, wps), or near misses that differ from the library's ids only in letter case or by a suffix
var startSchemes = []string{"none", "zh", "zh", "wps", "wps", "lower", "upper", "suffix"}

func genStart(t *rapid.T) *Start {
	s := &Start{Scheme: rapid.SampledFrom(startSchemes).Draw(t, "scheme"), Strip: rapid.Bool().Draw(t, "strip"),
		Custom: rapid.Bool().Draw(t, "custom"), Quote: rapid.Bool().Draw(t, "quote"),
		Lists: rapid.IntRange(0, 4).Draw(t, "lists"), Footnotes: rapid.IntRange(0, 3).Draw(t, "fn"), Endnotes: rapid.IntRange(0, 3).Draw(t, "en")}
	// now and then the package carries more than nine lists / notes (two-digit ids that the ids given later must not collide with)
	many := func(l string, n *int) {
		if rapid.IntRange(0, 9).Draw(t, "many"+l) == 0 {
			*n = rapid.IntRange(9, 12).Draw(t, "n"+l)
		}
	}
	many("lists", &s.Lists)
	many("fn", &s.Footnotes)
	many("en", &s.Endnotes)
	// half of the packages from elsewhere bind the main namespace of their numbering/notes parts to something other than w
	if rapid.Bool().Draw(t, "nsother") {
		s.NS = rapid.SampledFrom(nsSchemes).Draw(t, "ns")
	}
	n := rapid.IntRange(0, 4).Draw(t, "nh")
	for i := 0; i < n; i++ {
		s.Headings = append(s.Headings, rapid.IntRange(1, 9).Draw(t, "hl"))
	}
	// two in five packages from elsewhere lack optional parts: no (or an empty / style-less) styles part on a package
	// that keeps its lists and notes, or the bare package of a minimal producer (main part only)
	switch rapid.IntRange(0, 4).Draw(t, "optional") {
	case 0:
		s.NoStyles = rapid.SampledFrom(noStylesVariants).Draw(t, "nostyles")
		s.Scheme, s.Strip = "none", false
	case 1:
		s = &Start{Scheme: "none", Minimal: true, MinParas: rapid.IntRange(1, 3).Draw(t, "minparas"), MinTable: rapid.Bool().Draw(t, "mintable"),
			MinRels: rapid.Bool().Draw(t, "minrels")}
		if rapid.Bool().Draw(t, "minstyles") {
			s.NoStyles = rapid.SampledFrom(noStylesVariants).Draw(t, "nostyles")
		}
	}
	// half of the packages that have a (non-empty) styles part bind the main namespace there to something other than w,
	// a third lay the part out differently from the library (indented, with comments and a w:latentStyles block)
	if (!s.Minimal && s.NoStyles == "") || s.NoStyles == "hollow" || s.NoStyles == "defaults" {
		if rapid.Bool().Draw(t, "stylesnsother") {
			s.StylesNS = rapid.SampledFrom(nsSchemes).Draw(t, "stylesns")
		}
		if rapid.IntRange(0, 2).Draw(t, "stylesformother") == 0 {
			s.StylesForm = rapid.SampledFrom(stylesForms[1:]).Draw(t, "stylesform")
		}
	}
	// a third of the packages bind the main namespace of the main part itself to something other than w
	if rapid.IntRange(0, 2).Draw(t, "mainnsother") == 0 {
		s.MainNS = rapid.SampledFrom(nsSchemes).Draw(t, "mainns")
	}
	return s
}

// genOrder: the order-of-calls shape. A predefined style that a helper emits only for some content (heading style of
// level L, TOC entry style of level L) is removed while nothing uses it YET - before any such content exists, or after a
// table of contents was built (and saved) that has no entry of level L - and the calls that make the helper emit it come later.
func genOrder(t *rapid.T) []Op {
	var out []Op
	L := rapid.IntRange(1, 9).Draw(t, "ordlevel")
	heading := func(l int) Op {
		h := genOpOf(t, "heading")
		h.I = []int{l}
		return h
	}
	toc := func(k string) Op {
		o := genOpOf(t, k)
		if k != "updatetoc" {
			o.I = []int{rapid.IntRange(L, 9).Draw(t, "ordmax")}
		}
		return o
	}
	remove := func(id string) Op {
		rm := genOpOf(t, "st.remove")
		rm.S = []string{id}
		return rm
	}
	other := func() int { // a level that is not L
		l := rapid.IntRange(1, 8).Draw(t, "ordother")
		if l >= L {
			l++
		}
		return l
	}
	tocFirst := rapid.IntRange(0, 3).Draw(t, "ordtocfirst") != 0
	if tocFirst {
		// a table of contents without an entry of level L exists before the style is removed
		nh := rapid.IntRange(0, 2).Draw(t, "ordnh")
		k := rapid.SampledFrom([]string{"toc", "toc", "autotoc"}).Draw(t, "ordtoc")
		if k == "autotoc" && nh == 0 {
			nh = 1 // AutoGenerateTOC wants a heading
		}
		for i := 0; i < nh; i++ {
			out = append(out, heading(other()))
		}
		out = append(out, toc(k))
		// the caller looks at what the document uses now (a save), or does not
		if rapid.IntRange(0, 4).Draw(t, "ordsave") != 0 {
			out = append(out, genOpOf(t, "save"))
		}
	}
	switch rapid.IntRange(0, 3).Draw(t, "ordwhat") {
	case 0:
		out = append(out, remove(fmt.Sprintf("Heading%d", L)))
	case 1:
		out = append(out, remove(tocIDs[L]), remove(fmt.Sprintf("Heading%d", L)))
	default:
		out = append(out, remove(tocIDs[L]))
	}
	if rapid.IntRange(0, 3).Draw(t, "ordmid") == 0 {
		out = append(out, genOpOf(t, rapid.SampledFrom([]string{"save", "updatetoc", "para"}).Draw(t, "ordmidk")))
	}
	out = append(out, heading(L))
	if tocFirst {
		out = append(out, toc(rapid.SampledFrom([]string{"updatetoc", "updatetoc", "updatetoc", "toc", "autotoc"}).Draw(t, "ordupd")))
	} else {
		out = append(out, toc(rapid.SampledFrom([]string{"toc", "autotoc"}).Draw(t, "ordtoc2")))
		if rapid.Bool().Draw(t, "ordupd2") {
			out = append(out, heading(other()), toc("updatetoc"))
		}
	}
	return out
}

// genRejected: the rejected-call shape. Note, list, style and TOC calls with arguments the library rejects or corrects
// (blank note text, nil config, unknown id, out-of-range level) among ordinary ones, then saves and an open/save cycle.
func genRejected(t *rapid.T) []Op {
	var out []Op
	n := rapid.IntRange(2, 5).Draw(t, "rejn")
	for i := 0; i < n; i++ {
		k := rapid.SampledFrom([]string{"footnote", "endnote", "fnrun", "rej", "rej", "para", "listitem", "heading"}).Draw(t, "rejk")
		o := genOpOf(t, k)
		if (isNoteOp(k) || k == "fnrun") && rapid.Bool().Draw(t, "rejblank") {
			o.S[len(o.S)-1] = rapid.SampledFrom(blankTexts).Draw(t, "blank")
		}
		out = append(out, o)
	}
	out = append(out, genOpOf(t, rapid.SampledFrom([]string{"save", "reopen", "render"}).Draw(t, "rejsave")))
	out = append(out, genOpOf(t, rapid.SampledFrom([]string{"footnote", "endnote", "fnrun"}).Draw(t, "rejafter")))
	return out
}

func genCase(t *rapid.T) Case {
	var c Case
	if rapid.IntRange(0, 3).Draw(t, "hasstart") == 0 {
		c.Start = genStart(t)
	}
	n := rapid.IntRange(1, kit.Scale(18, 40)).Draw(t, "nops")
	for i := 0; i < n; i++ {
		c.Ops = append(c.Ops, genOpOf(t, rapid.SampledFrom(kindPool).Draw(t, "kind")))
	}
	switch rapid.IntRange(0, 8).Draw(t, "tail") {
	case 6:
		c.Ops = append(c.Ops, genBurst(t)...)
	case 7:
		c.Ops = append(c.Ops, genAlternate(t)...)
	case 3, 4:
		c.Ops = append(c.Ops, genOrder(t)...)
	case 5:
		c.Ops = append(c.Ops, genRejected(t)...)
	case 0, 1:
		for _, k := range rapid.SampledFrom(tails).Draw(t, "tailsel") {
			c.Ops = append(c.Ops, genOpOf(t, k))
		}
	case 2:
		// a predefined style is removed while unused, then the helper that normally refers to it is called
		n := rapid.IntRange(1, 9).Draw(t, "rmlevel")
		rm := genOpOf(t, "st.remove")
		hd := genOpOf(t, "heading")
		hd.I = []int{n}
		if rapid.Bool().Draw(t, "rmtoc") {
			rm.S = []string{tocIDs[n]}
			c.Ops = append(c.Ops, rm, hd, genOpOf(t, rapid.SampledFrom([]string{"toc", "autotoc"}).Draw(t, "tock")))
		} else {
			rm.S = []string{fmt.Sprintf("Heading%d", n)}
			c.Ops = append(c.Ops, rm, hd)
			if rapid.Bool().Draw(t, "rmsave") {
				c.Ops = append(c.Ops, genOpOf(t, "save"), genOpOf(t, "heading"))
			}
		}
	}
	return c
}

// ---------------------------------------------------------------------------------------------
// interpreter

type runner struct {
	res *kit.Result
	x   *ops.Exec
	m   *model
	dir string
	// the base document of the most recent render and the bookkeeping that belonged to it: it stays a valid
	// document object of its own, saved (and judged on X1-X3) when the history ends or the next render replaces it
	base      *document.Document
	baseModel *model
	baseWhere string
	// the other document object of a history that uses two alternately (widen.go); other = the current one is the second
	alt   *altDoc
	other bool
	swaps int
}

func tryCall(f func()) (interface{}, string) { return kit.Try(f) }

var libTypes = map[string]style.StyleType{"paragraph": style.StyleTypeParagraph, "character": style.StyleTypeCharacter, "table": style.StyleTypeTable}

// normalise makes a style argument one a careful caller could pass at this moment:
// an id that is already registered keeps its type (paragraphs/tables may refer to it), a predefined id that
// is re-defined keeps a base that cannot close a based-on cycle, custom bases only point "backwards".
func (r *runner) normalise(s *StyleSpec) *StyleSpec {
	c := *s
	if t, ok := r.m.reg[c.ID]; ok {
		c.Type = t
	} else if t, ok := builtinTypes[c.ID]; ok {
		c.Type = t
	}
	if _, predefined := builtinTypes[c.ID]; predefined {
		if c.ID == "Normal" {
			c.BasedOn = ""
		} else {
			c.BasedOn = "Normal"
		}
	} else if idx := indexOf(freshIDs, c.BasedOn); idx >= 0 && idx >= indexOf(freshIDs, c.ID) {
		c.BasedOn = "Normal"
	}
	if c.Type != "paragraph" {
		c.Align, c.Before, c.After = "", 0, 0
	}
	return &c
}

func indexOf(l []string, s string) int {
	for i, x := range l {
		if x == s {
			return i
		}
	}
	return -1
}

// judge evaluates X1-X4 on one saved package.
func (r *runner) judge(b []byte, where string) *obs { return r.judgeAs(r.m, b, where, true) }

// judgeAs evaluates the clauses with the bookkeeping m of the document object the package was saved from
// (current = the history's current document: X4 applies and the save counts for the non-trivial rule).
func (r *runner) judgeAs(m *model, b []byte, where string, current bool) *obs {
	res := r.res
	o, err := observe(b)
	if err != nil {
		// not a readable package / main part: C01's clause, nothing to resolve here
		res.Count("unreadable_package", 1)
		return nil
	}
	clauses := []string{"C13.X1", "C13.X2", "C13.X3"}
	if current {
		m.saves++
		if m.saves >= 2 && m.sinceSave {
			m.styleBetweenSaves = true
		}
		m.sinceSave = false
		m.observedSave(o)
		if m.opened {
			for id := range o.Styles {
				m.partStyles[id] = true
			}
		}
		if m.rejectPending {
			m.rejectPending, m.rejectJudged = false, true
		}
		if !m.opened && !m.renderOfSaved {
			m.lastSaveStyles = map[string]bool{}
			for id := range o.Styles {
				m.lastSaveStyles[id] = true
			}
		}
		clauses = append(clauses, "C13.X4")
	}
	for _, cl := range clauses {
		res.Eval(cl)
	}
	res.Count("style_refs_checked", len(o.Refs))
	res.Count("num_refs_checked", len(o.NumRefs))
	res.Count("note_refs_checked", len(o.FnRefs)+len(o.EnRefs))
	res.Count("api_styles_checked", len(m.want))
	for _, v := range checkRefs(o) {
		var flags []string
		switch v.Kind {
		case "pStyle", "rStyle", "tblStyle":
			if m.late[v.ID] {
				flags = append(flags, "late-style")
			}
			if m.preStyles != nil && !m.preStyles[v.ID] {
				flags = append(flags, "opened-without")
			}
			if m.removed[v.ID] {
				flags = append(flags, "removed")
			}
			if v.Sdt {
				flags = append(flags, "in-sdt")
			}
			// the styles part of a document rendered from a saved (never opened) base is the one of the base's last save
			if (m.renderOfSaved && !m.lastSaveStyles[v.ID]) || m.renderLost[v.ID] {
				flags = append(flags, "rendered-without")
				m.renderLost[v.ID] = true
				if current {
					r.m.renderLost[v.ID] = true
				}
			}
		case "numId":
			if m.preNum[v.ID] {
				flags = append(flags, "pre-open")
			}
			if m.rendered {
				flags = append(flags, "rendered")
			}
		case "footnote":
			if m.preFn[v.ID] {
				flags = append(flags, "pre-open")
			}
			if m.rendered {
				flags = append(flags, "rendered")
			}
		case "endnote":
			if m.preEn[v.ID] {
				flags = append(flags, "pre-open")
			}
			if m.rendered {
				flags = append(flags, "rendered")
			}
		}
		res.Fail(v.Clause, "%s: %s [kind=%s id=%q flags=%s]", where, v.Text, v.Kind, v.ID, strings.Join(flags, ","))
	}
	if !current {
		return o
	}
	for _, v := range checkStyles(o, m.want) {
		var flags []string
		if m.late[v.ID] {
			flags = append(flags, "late-style")
		}
		if m.lateRendered[v.ID] {
			flags = append(flags, "late-rendered")
		}
		res.Fail(v.Clause, "%s: %s [kind=style id=%q flags=%s]", where, v.Text, v.ID, strings.Join(flags, ","))
	}
	return o
}

// judgeBase saves the base document of the most recent render and judges that package on X1-X3.
func (r *runner) judgeBase() bool {
	d, bm, where := r.base, r.baseModel, r.baseWhere
	r.base, r.baseModel = nil, nil
	if d == nil {
		return true
	}
	var b []byte
	var err error
	if p, st := kit.Try(func() { b, err = d.ToBytes() }); p != nil {
		r.res.Fail("C13.X0", "%s: saving the template base document panicked: %v [%s]", where, p, st)
		return false
	}
	if err != nil {
		r.res.Count("save_errors", 1)
		return true
	}
	r.res.Label("base-judged-after-render")
	r.judgeAs(bm, b, where+": the template base document saved after the history went on with the rendered one", false)
	return true
}

func (r *runner) save(viaFile bool, where string) ([]byte, *obs, bool) {
	var b []byte
	var err error
	p, st := kit.Try(func() {
		if viaFile {
			path := filepath.Join(r.dir, "save.docx")
			if err = r.x.Doc.Save(path); err == nil {
				b, err = os.ReadFile(path)
			}
		} else {
			b, err = r.x.Doc.ToBytes()
		}
	})
	if p != nil {
		r.res.Fail("C13.X0", "%s panicked: %v [%s]", where, p, st)
		return nil, nil, false
	}
	if err != nil {
		r.res.Count("save_errors", 1)
		return nil, nil, true
	}
	r.m.saved = true
	return b, r.judge(b, where), true
}

func (r *runner) refresh() {
	r.x.Paras, r.x.Tables, r.x.Images = nil, nil, nil
	if r.x.Doc != nil && r.x.Doc.Body != nil {
		r.x.Paras = r.x.Doc.Body.GetParagraphs()
		r.x.Tables = r.x.Doc.Body.GetTables()
	}
}

// open replaces the document by one opened from b (fresh = in a new process: registries reset first).
func (r *runner) open(b []byte, o *obs, viaFile, fresh bool, where string) bool {
	if fresh {
		document.VerifResetGlobals()
	}
	var nd *document.Document
	var err error
	p, st := kit.Try(func() {
		if viaFile {
			path := filepath.Join(r.dir, "open.docx")
			if err = os.WriteFile(path, b, 0o644); err == nil {
				nd, err = document.Open(path)
			}
		} else {
			nd, err = document.OpenFromMemory(io.NopCloser(bytes.NewReader(b)))
		}
	})
	if p != nil {
		r.res.Fail("C13.X0", "%s: opening panicked: %v [%s]", where, p, st)
		return false
	}
	if err != nil || nd == nil || nd.Body == nil {
		// the library cannot open the package: C03/C06's clause; the history ends here
		r.res.Count("open_errors", 1)
		return false
	}
	r.x.Doc = nd
	r.refresh()
	r.m.openedFrom(o, fresh)
	return true
}

func isListOp(k string) bool  { return k == "listitem" || k == "bullet" || k == "numbered" }
func isNoteOp(k string) bool  { return k == "footnote" || k == "endnote" }
func isStyleOp(k string) bool { return strings.HasPrefix(k, "st.") }
func isTOCOp(k string) bool   { return k == "toc" || k == "autotoc" || k == "updatetoc" }

// step executes one op; false = the history cannot continue.
func (r *runner) step(i int, op Op) bool {
	m, x, res := r.m, r.x, r.res
	where := fmt.Sprintf("op %d %s", i, op.K)
	if r.other {
		where += " [second document]"
	}
	if op.K == "swap" {
		return r.swap(len(op.B) > 0 && op.B[0], where)
	}
	sm := x.Doc.GetStyleManager()
	try := func(f func()) bool {
		if p, st := kit.Try(f); p != nil {
			res.Fail("C13.X0", "%s panicked: %v [%s]", where, p, st)
			return false
		}
		return true
	}
	switch op.K {
	case "save":
		_, _, ok := r.save(len(op.B) > 0 && op.B[0], where)
		return ok
	case "reopen":
		b, o, ok := r.save(false, where+" (the save before reopening)")
		if !ok || b == nil {
			return ok
		}
		fresh := len(op.B) > 1 && op.B[1]
		if fresh {
			res.Label("reopen:fresh-process")
		} else {
			res.Label("reopen:same-process")
		}
		return r.open(b, o, len(op.B) > 0 && op.B[0], fresh, where)
	case "render":
		// the current document becomes the base document of a template; the history goes on with the rendered document
		if !r.judgeBase() {
			return false
		}
		var nd *document.Document
		var err error
		if !try(func() {
			te := document.NewTemplateEngine()
			if _, err = te.LoadTemplateFromDocument("t", x.Doc); err == nil {
				nd, err = te.RenderTemplateToDocument("t", document.NewTemplateData())
			}
		}) {
			return false
		}
		if err != nil || nd == nil || nd.Body == nil {
			res.Count("render_errors", 1)
			return true
		}
		r.base, r.baseModel, r.baseWhere = x.Doc, m.snapshot(), where
		x.Doc = nd
		r.refresh()
		res.Label("op:render")
		switch {
		case m.opened:
			res.Label("render:of-opened")
		case m.saved:
			res.Label("render:of-saved")
		default:
			res.Label("render:of-new")
		}
		if m.lists > 0 || len(m.preNum) > 0 {
			res.Label("render:base-with-lists")
		}
		m.renderedFrom()
	case "st.create", "st.add", "st.quick":
		if sm == nil || op.St == nil {
			return true
		}
		s := r.normalise(op.St)
		switch op.K {
		case "st.create":
			if !try(func() { sm.CreateCustomStyle(s.ID, s.Name, libTypes[s.Type], s.BasedOn) }) {
				return false
			}
			m.want[s.ID] = fullWant(s, false, false)
		case "st.add":
			if !try(func() { sm.AddStyle(libStyle(s)) }) {
				return false
			}
			m.want[s.ID] = fullWant(s, true, s.Type == "paragraph")
		case "st.quick":
			hasPara := len(op.B) > 0 && op.B[0] && s.Type == "paragraph"
			hasRun := len(op.B) > 1 && op.B[1]
			cfg := style.QuickStyleConfig{ID: s.ID, Name: s.Name, Type: libTypes[s.Type], BasedOn: s.BasedOn}
			if hasPara {
				cfg.ParagraphConfig = &style.QuickParagraphConfig{Alignment: s.Align, SpaceBefore: s.Before, SpaceAfter: s.After}
			}
			if hasRun {
				cfg.RunConfig = &style.QuickRunConfig{FontName: s.Font, FontSize: s.SizePt, FontColor: s.Color, Bold: s.Bold, Italic: s.Italic}
			}
			_, known := m.reg[s.ID]
			var err error
			if !try(func() { _, err = style.NewQuickStyleAPI(sm).CreateQuickStyle(cfg) }) {
				return false
			}
			if err != nil {
				// documented: an id that already exists is rejected; nothing was created or changed
				res.Label("quick:rejected")
				return true
			}
			if known {
				// the caller's view (styles of the opened package) and the library's registry disagree;
				// the style now exists in the registry, the expectation below applies all the same
				res.Label("quick:accepted-known-id")
			}
			m.want[s.ID] = fullWant(s, hasRun, hasPara)
		}
		m.reg[s.ID] = s.Type
		if s.BasedOn != "" {
			m.base[s.ID] = s.BasedOn
		} else {
			delete(m.base, s.ID)
		}
		r.styleLabel(s.ID)
		m.touched(s.ID)
		res.Label("op:" + op.K)
	case "st.mod":
		if sm == nil {
			return true
		}
		// candidates: the styles this history set through the API, and a few predefined ones
		cand := []string{}
		for id := range m.want {
			cand = append(cand, id)
		}
		for _, id := range []string{"Heading1", "Heading3", "Quote", "Title"} {
			if _, ok := m.want[id]; !ok {
				if _, ok := m.reg[id]; ok {
					cand = append(cand, id)
				}
			}
		}
		sortStrings(cand)
		if len(op.B) > 1 && op.B[1] && m.opened {
			// every id the styles part of the opened document defines (a caller sees them in the file); whether the
			// style manager knows the id is asked below
			var more []string
			for id := range m.partStyles {
				if indexOf(cand, id) < 0 {
					more = append(more, id)
				}
			}
			sortStrings(more)
			cand = append(cand, more...)
			res.Label("mod:any-id-of-opened-part")
		}
		if len(cand) == 0 {
			return true
		}
		id := cand[ops.In(op.I[0], len(cand))]
		var st *style.Style
		if !try(func() { st = sm.GetStyle(id) }) {
			return false
		}
		if st == nil {
			res.Count("mod_skipped_not_registered", 1)
			return true
		}
		w := m.want[id]
		if w == nil {
			w = map[string]string{}
			m.want[id] = w
		}
		switch op.I[1] {
		case 0:
			st.Name = &style.StyleName{Val: op.S[0]}
			w["name"] = op.S[0]
		case 1:
			if id == "Normal" || m.reg[id] != "paragraph" {
				st.Name = &style.StyleName{Val: op.S[0]}
				w["name"] = op.S[0]
			} else if op.S[1] == "" || op.S[1] == id {
				st.BasedOn = nil
				w["basedOn"] = absent
			} else {
				st.BasedOn = &style.BasedOn{Val: op.S[1]}
				w["basedOn"] = op.S[1]
			}
		case 2:
			if st.RunPr == nil {
				st.RunPr = &style.RunProperties{}
			}
			if op.B[0] {
				st.RunPr.Bold = &style.Bold{}
			} else {
				st.RunPr.Bold = nil
			}
			w["b"] = flag(op.B[0])
		case 3:
			if st.RunPr == nil {
				st.RunPr = &style.RunProperties{}
			}
			st.RunPr.Color = &style.Color{Val: op.S[2]}
			w["color"] = op.S[2]
		case 4:
			if st.RunPr == nil {
				st.RunPr = &style.RunProperties{}
			}
			st.RunPr.FontSize = &style.FontSize{Val: "36"}
			w["sz"] = "36"
		case 5:
			if m.reg[id] == "paragraph" {
				if st.ParagraphPr == nil {
					st.ParagraphPr = &style.ParagraphProperties{}
				}
				st.ParagraphPr.Justification = &style.Justification{Val: op.S[3]}
				w["jc"] = op.S[3]
			} else {
				st.Name = &style.StyleName{Val: op.S[0]}
				w["name"] = op.S[0]
			}
		}
		if b, ok := w["basedOn"]; ok {
			if b == absent {
				delete(m.base, id)
			} else {
				m.base[id] = b
			}
		}
		r.styleLabel(id)
		m.touched(id)
		res.Label("op:st.mod")
	case "st.remove":
		if sm == nil {
			return true
		}
		// RemoveStyle of an unused style: not given to any paragraph/table of the body (by an op of this history or by the
		// package the document was opened from), not the base of another style, and registered at this moment
		removableNow := func(id string) bool {
			return id != "Normal" && id != "a1" && !m.used[id] && !m.isBase(id)
		}
		id := ""
		if len(op.S) > 0 {
			if removableNow(op.S[0]) {
				id = op.S[0]
			}
		} else {
			var cand []string
			for c := range m.want {
				if _, predefined := builtinTypes[c]; !predefined && removableNow(c) {
					cand = append(cand, c)
				}
			}
			sortStrings(cand)
			if len(cand) > 0 {
				id = cand[ops.In(op.I[0], len(cand))]
			}
		}
		if id == "" {
			res.Count("remove_skipped_in_use", 1)
			return true
		}
		exists := false
		if !try(func() { exists = sm.StyleExists(id) }) {
			return false
		}
		if !exists {
			res.Count("remove_skipped_not_registered", 1)
			return true
		}
		if !try(func() { sm.RemoveStyle(id) }) {
			return false
		}
		delete(m.want, id)
		delete(m.reg, id)
		delete(m.base, id)
		m.sinceSave = true
		res.Label("op:st.remove")
		if len(op.S) > 0 {
			m.removed[id] = true
			res.Label("remove:predefined")
			if reTOCID.MatchString(id) {
				res.Label("remove:toc-style")
				if m.tocOps > 0 {
					res.Label("remove:toc-style-unused-by-existing-toc")
				}
			}
			if strings.HasPrefix(id, "Heading") {
				res.Label("remove:heading-style")
			}
		}
	case "pstyle":
		if sm == nil || len(x.Paras) == 0 {
			return true
		}
		cand := m.idsOfType("paragraph")
		if m.opened {
			// on an opened document a caller also tries the ids the library documents as predefined: whether one is
			// registered on THIS document is asked below (StyleExists/GetStyle), as for every candidate
			for id, typ := range builtinTypes {
				if _, ok := m.reg[id]; !ok && typ == "paragraph" {
					cand = append(cand, id)
				}
			}
			sortStrings(cand)
		}
		if len(op.B) > 0 && op.B[0] {
			var own []string
			for _, id := range cand {
				if _, predefined := builtinTypes[id]; !predefined {
					own = append(own, id)
				}
			}
			if len(own) > 0 {
				cand = own
			}
		}
		if len(cand) == 0 {
			return true
		}
		id := cand[ops.In(op.I[1], len(cand))]
		// SetStyle is only given an id that is registered at this moment (a caller can check exactly this)
		ok := false
		if !try(func() {
			if st := sm.GetStyle(id); st != nil && sm.StyleExists(id) && st.Type == "paragraph" {
				ok = true
			}
		}) {
			return false
		}
		if !ok {
			res.Count("pstyle_skipped_not_registered", 1)
			return true
		}
		p := x.Paras[ops.In(op.I[0], len(x.Paras))]
		if !try(func() { p.SetStyle(id) }) {
			return false
		}
		m.used[id] = true
		r.styledContent()
		res.Label("op:pstyle")
		if _, custom := builtinTypes[id]; !custom || m.want[id] != nil {
			res.Label("pstyle:api-style")
		}
	case "tblstyle", "tblcustom":
		if len(x.Tables) == 0 {
			// the op styles a table: make one when the body has none
			if !try(func() {
				if t, err := x.Doc.AddTable(&document.TableConfig{Rows: 2, Cols: 2, Width: 6000}); err == nil && t != nil {
					x.Tables = append(x.Tables, t)
				}
			}) {
				return false
			}
			if len(x.Tables) == 0 {
				return true
			}
		}
		tb := x.Tables[ops.In(op.I[0], len(x.Tables))]
		var err error
		if op.K == "tblcustom" {
			var bc *document.TableBorderConfig
			var sc *document.ShadingConfig
			if op.B[1] {
				b := &document.BorderConfig{Style: document.BorderStyleSingle, Width: 4, Color: "000000"}
				bc = &document.TableBorderConfig{Top: b, Left: b, Bottom: b, Right: b, InsideH: b, InsideV: b}
			}
			if op.B[2] {
				sc = &document.ShadingConfig{Pattern: document.ShadingPatternClear, BackgroundColor: "EEEEEE"}
			}
			if !try(func() { err = tb.CreateCustomTableStyle(op.S[0], op.S[1], bc, sc, op.B[0]) }) {
				return false
			}
			res.Label("op:tblcustom")
		} else if op.I[1] == 0 {
			// a table style id the caller knows to be registered
			cand := m.idsOfType("table")
			if len(cand) == 0 || sm == nil {
				return true
			}
			id := cand[ops.In(op.I[2], len(cand))]
			ok := false
			if !try(func() {
				if st := sm.GetStyle(id); st != nil && st.Type == "table" {
					ok = true
				}
			}) {
				return false
			}
			if !ok {
				res.Count("tblstyle_skipped_not_registered", 1)
				return true
			}
			if !try(func() {
				err = tb.ApplyTableStyle(&document.TableStyleConfig{StyleID: id, FirstRowHeader: op.B[0], BandedRows: op.B[1]})
			}) {
				return false
			}
			m.used[id] = true
			res.Label("op:tblstyle-id")
		} else {
			if !try(func() {
				err = tb.ApplyTableStyle(&document.TableStyleConfig{Template: document.TableStyleTemplate(op.S[0]), FirstRowHeader: op.B[0], BandedRows: op.B[1]})
			}) {
				return false
			}
			res.Label("op:tblstyle-template")
		}
		if err != nil {
			res.Count("op_errors", 1)
		}
		m.sinceSave = true
		r.styledContent()
	case "fnrun":
		// AddFootnoteToRun on a run of a body paragraph that has one
		var cand []*document.Paragraph
		for _, p := range x.Paras {
			if p != nil && len(p.Runs) > 0 {
				cand = append(cand, p)
			}
		}
		if len(cand) == 0 {
			return true
		}
		p := cand[ops.In(op.I[0], len(cand))]
		var err error
		if !try(func() { err = x.Doc.AddFootnoteToRun(&p.Runs[ops.In(op.I[1], len(p.Runs))], op.S[0]) }) {
			return false
		}
		if err != nil {
			res.Count("op_errors", 1)
		}
		res.Label("op:fnrun")
		r.afterNote(op.S[0], err)
	case "rej":
		return r.reject(where, op)
	default:
		// ops of the shared interpreter
		var err error
		if !try(func() { err = x.Do(op.Op) }) {
			return false
		}
		if err != nil {
			res.Count("op_errors", 1)
		}
		switch {
		case op.K == "md":
			if err == nil {
				m.newDoc()
				res.Label("op:md")
				// the converted document uses heading, quote and code styles according to its source
				for _, id := range []string{"Heading1", "Heading2", "Heading3", "Heading4", "Heading5", "Heading6", "Quote", "CodeBlock"} {
					m.used[id] = true
				}
			}
		case isListOp(op.K):
			r.afterList()
		case isNoteOp(op.K):
			r.afterNote(op.S[1], err)
		case isTOCOp(op.K):
			r.afterTOC(op.K)
		case op.K == "heading":
			r.afterHeading(op.I[0])
		}
	}
	return true
}

// afterNote: bookkeeping of one executed note call (AddFootnote / AddEndnote / AddFootnoteToRun) with the
// note text it was given and the result it returned. The oracle needs neither: whatever the call answered,
// every reference of the next save must have its note.
func (r *runner) afterNote(text string, err error) {
	m, res := r.m, r.res
	res.Label("op:note")
	m.notes++
	if m.opened {
		res.Label("note:after-open")
		if len(m.preFn)+len(m.preEn) > 0 {
			res.Label("note:after-open-with-notes")
			if m.startNS != "" {
				res.Label("note:after-open-ns-" + m.startNS)
			}
		}
	}
	if m.rendered {
		m.extendAfterRender = true
		res.Label("note:after-render")
	}
	if strings.TrimSpace(text) == "" {
		res.Label("note:blank-text")
		m.rejectPending = true
	}
	if err != nil {
		res.Label("note:call-rejected")
		m.rejectPending = true
	}
}

// afterList: bookkeeping of one executed list call (AddListItem / AddBulletList / AddNumberedList).
func (r *runner) afterList() {
	m, res := r.m, r.res
	m.lists++
	m.sinceSave = true
	res.Label("op:list")
	if m.opened {
		m.extendAfterOpen = true
		res.Label("list:after-open")
		if len(m.preNum) > 0 {
			res.Label("list:after-open-with-lists")
			if m.startNS != "" {
				res.Label("list:after-open-ns-" + m.startNS)
			}
		}
	}
	if m.rendered {
		m.extendAfterRender = true
		res.Label("list:after-render")
		if m.opened && len(m.preNum) > 0 && m.listsSinceOpen > 0 {
			res.Label("list:after-render-of-extended-opened")
		}
	}
	m.listsSinceOpen++
}

// afterTOC: bookkeeping of one executed TOC call.
func (r *runner) afterTOC(k string) {
	m, res := r.m, r.res
	m.sinceSave = true
	res.Label("op:" + k)
	// TOC entries may be given any of the TOC styles, AutoGenerateTOC closes the field with a Heading1 paragraph
	for _, id := range tocIDs {
		if m.removed[id] {
			res.Label("toc:after-removed-toc-style")
			if k == "updatetoc" {
				res.Label("updatetoc:after-removed-toc-style")
			}
		}
		m.used[id] = true
	}
	m.used["Heading1"] = true
	m.tocOps++
	r.styledContent()
}

// afterHeading: bookkeeping of one executed AddHeadingParagraph(text, level).
func (r *runner) afterHeading(level int) {
	m, res := r.m, r.res
	res.Label("op:heading")
	if level < 1 || level > 9 {
		// documented range 1-9; anything else is treated as level 1
		res.Label("heading:level-out-of-range")
		level = 1
	}
	hid := fmt.Sprintf("Heading%d", level)
	if m.removed[hid] {
		res.Label("heading:after-its-style-removed")
	}
	m.used[hid] = true
	if level == 9 {
		res.Label("heading:9")
	}
	if m.opened {
		res.Label("heading:after-open")
	}
	r.styledContent()
}

// styledContent: a call that gives a body element a style id ran; on a document opened from a package
// without style definitions that is the extension the property is about.
func (r *runner) styledContent() {
	if r.m.opened && r.m.noStylesAtOpen {
		r.m.styledNoStyles = true
		r.m.extendAfterOpen = true
		r.res.Label("nostyles:styled-content")
	}
}

// styleLabel labels a style-API op by the state of the document object it is applied to.
func (r *runner) styleLabel(id string) {
	switch {
	case r.m.opened:
		r.res.Label("style:on-opened")
		if r.m.startStylesNS != "" {
			r.res.Label("style:on-opened-styles-ns-" + r.m.startStylesNS)
		}
		// the styles part the document was opened with (or an earlier save of this object) already defines the id:
		// the next save has to put the new definition in the place of that one
		if r.m.partStyles[id] {
			r.res.Label("style:redefines-definition-of-opened-part")
			if r.m.startStylesNS != "" {
				r.res.Label("style:redefines-definition-of-opened-part-ns")
			}
		}
	case r.m.saved:
		r.res.Label("style:after-save")
	default:
		r.res.Label("style:early")
	}
}

func sortStrings(s []string) {
	for i := 1; i < len(s); i++ {
		for j := i; j > 0 && s[j] < s[j-1]; j-- {
			s[j], s[j-1] = s[j-1], s[j]
		}
	}
}

func run(c Case) *kit.Result {
	res := &kit.Result{}
	document.VerifResetGlobals()
	dir, _ := os.MkdirTemp(kit.Scratch, "c13-")
	defer os.RemoveAll(dir)
	r := &runner{res: res, x: ops.NewExec(dir), m: newModel(), dir: dir}
	shape := []string{c.Start.sig()}
	defer func() { res.Shape = strings.Join(shape, "|") }()

	if c.Start != nil {
		res.Label("start:foreign")
		res.Label("start:scheme-" + c.Start.Scheme)
		if nearMissSchemes[c.Start.Scheme] != nil {
			res.Label("start:near-miss-ids")
		}
		if c.Start.Strip {
			res.Label("start:stripped")
		}
		if c.Start.NS != "" {
			res.Label("start:ns-" + c.Start.NS)
			r.m.startNS = c.Start.NS
		}
		if c.Start.Minimal {
			res.Label("start:minimal")
		}
		if c.Start.StylesNS != "" {
			res.Label("start:styles-ns-" + c.Start.StylesNS)
			r.m.startStylesNS = c.Start.StylesNS
		}
		if c.Start.Lists > 8 || c.Start.Footnotes > 8 || c.Start.Endnotes > 8 {
			res.Label("start:more-than-nine-lists-or-notes")
		}
		if c.Start.MainNS != "" {
			res.Label("start:main-ns-" + c.Start.MainNS)
		}
		if c.Start.StylesForm != "" {
			res.Label("start:styles-form-" + c.Start.StylesForm)
		}
		if c.Start.Minimal || c.Start.NoStyles != "" {
			res.Label("start:no-style-definitions")
			if c.Start.NoStyles == "" {
				res.Label("start:styles-absent")
			} else {
				res.Label("start:styles-" + c.Start.NoStyles)
			}
		}
		var b []byte
		var err error
		if p, _ := kit.Try(func() { b, err = buildStart(c.Start) }); p != nil || err != nil {
			res.Count("start_build_failed", 1)
			return res
		}
		// precondition: the start package itself satisfies X1-X3 (it is an input, not an output under test)
		o, oerr := observe(b)
		if oerr != nil || len(checkRefs(o)) > 0 {
			res.Count("start_invalid", 1)
			return res
		}
		if !r.open(b, o, false, true, "start") {
			return res
		}
	}
	labelCounts(res, c)
	complete := true
	for i, op := range c.Ops {
		if !r.step(i, op) {
			complete = false
			shape = append(shape, op.K+":stop")
			break
		}
		shape = append(shape, op.K)
	}
	if complete {
		where := "final save"
		if r.other {
			where += " [second document]"
		}
		r.save(false, where)
		r.judgeBase()
		if r.alt != nil {
			// the document object that is not the current one is as much a document of this history: its final package too
			if r.swap(false, "end") {
				where = "final save of the document that was not the current one"
				if r.other {
					where += " [second document]"
				}
				r.save(false, where)
				res.Label("swap:both-judged")
			}
		}
	}
	ms := []*model{r.m}
	if r.alt != nil {
		ms = append(ms, r.alt.m)
	}
	var saves2, between, extOpen, extRender, rejJudged bool
	for _, m := range ms {
		saves2 = saves2 || m.saves >= 2
		between = between || m.styleBetweenSaves
		extOpen = extOpen || m.extendAfterOpen
		extRender = extRender || m.extendAfterRender
		rejJudged = rejJudged || m.rejectJudged
	}
	if saves2 {
		res.Label("saves>=2")
	}
	if between {
		res.Label("style/list/toc-op-between-saves")
	}
	if extOpen {
		res.Label("opened-then-extended")
	}
	if extRender {
		res.Label("rendered-then-extended")
	}
	if rejJudged {
		res.Label("rejected-call-then-judged-save")
	}
	res.Nontrivial = between || extOpen || extRender || rejJudged
	return res
}

func TestC13(t *testing.T) {
	kit.Main(t, kit.Spec[Case]{
		ID: "C13", Level: "exploration",
		Rule: "history of 1-18 (thorough 1-40) generated calls (+ a scenario tail in 3/4 of the cases: multi-step shapes; remove-then-emit; order-of-calls shape = a table of contents without level L is built [and saved], the unused TOC/heading style of level L removed, then a heading of level L and UpdateTOC/GenerateTOC/AutoGenerateTOC; rejected-call shape = notes with blank text, nil configs, unknown ids, out-of-range levels, then save/reopen/render and one more note) over the style API (CreateCustomStyle, AddStyle, in-place change, RemoveStyle of an unused custom or predefined style - also right before the heading/TOC call that would normally use it, CreateQuickStyle), styled content (headings 1-9, SetStyle with an id registered at that moment, quote/code via markdown, GenerateTOC/AutoGenerateTOC/UpdateTOC, ApplyTableStyle, CreateCustomTableStyle), list items, notes (AddFootnote/AddEndnote/AddFootnoteToRun; a third of the note texts empty or whitespace-only), calls with rejected/corrected arguments (RemoveFootnote/RemoveEndnote/RestartNumbering/RemoveStyle of unknown ids, AddListItem/GenerateTOC/AutoGenerateTOC/SetFootnoteConfig/CreateMultiLevelList with nil, CreateQuickStyle of an existing id, heading and SetTOCStyle levels outside 1-9, ApplyTableStyle/CreateCustomTableStyle without an id), saves (ToBytes/Save), reopen (same process / fresh process) and render (the current document is loaded as the base document of a template, LoadTemplateFromDocument + RenderTemplateToDocument with empty data, and the history goes on with the rendered copy); 1/4 of the cases start from a package with localised style ids (Word zh-CN / WPS numbers and letters) or with near-miss ids (every id of its styles part is the library's id in lower case, in upper case, or with a suffix: heading1 / HEADING1 / Heading1x - so that no id the library emits later is defined there by exact comparison), its own numbering and notes, half of these with numbering/notes parts that bind the main namespace to ns0: or make it the default namespace; two in five of the start packages lack optional parts: no word/styles.xml (or a zero-length one, or one without any w:style) while keeping their lists and notes, or the bare three-part package of a minimal producer; half of the start packages that have a styles part (also a style-less one) bind the main namespace there to ns0: or make it the default namespace, a third lay the part out differently (indented; tabs + comments + w:latentStyles + single-quoted XML declaration); one in ten carries 9-12 lists / footnotes / endnotes. One history in nine ends with the many-of-one-kind shape (one note / list / heading / style-creating / table-style call repeated 9-12 times, rarely 16-18, 32-34 or 64-66 times, then save/reopen/render and the call once more), one in nine with the two-documents shape (swap: a second document object - new, or opened from a save of the current one - and the history goes back and forth between the two; both are saved and judged at the end); style ids also one past the heading range (Heading10), a case variant of a predefined id, ids with &, <, a blank, non-ASCII letters, 70 characters, and style names equal to predefined names; in-place changes on an opened document pick, a third of the time, any id its styles part defines. Every intermediate and the final package is judged on X1-X4; the base document of a render is saved once more when the history ends (or the next render replaces it) and that package is judged on X1-X3. Non-trivial = >=2 judged saves with a style/list/TOC op between them, or an opened package extended by a style-API or list op, or a rendered copy extended by a style-API, list or note op, or styled content added to a document opened from a package without style definitions, or a judged save after a rejected call / blank note text; distinct = distinct (start shape, op kind sequence)",
		Gen:  genCase, Run: run, Findings: findings,
		Assumptions: []string{
			"ids are resolved by the harness's own zip/OPC reader and canonical XML trees; the styles/numbering/notes parts are located through the main part's relationships, else by content type, else by their conventional names (where a relationship is missing or misplaced is C02's clause, except the numbering relationship which X2 names)",
			"the library writes a note reference as the text [N] / [尾注N], in a run of its own (AddFootnote/AddEndnote) or appended to the text of an existing run (AddFootnoteToRun); every such marker in a run of the main part is taken as a reference to note id N (generated texts contain no brackets)",
			"the result of a call (error or not) is not part of the oracle: after a call that was rejected, or given an empty/blank/nil/unknown argument, the following saves are judged on X1-X4 like any other - a rejected call must not leave a reference behind",
			"a start package without style definitions is an input: its body refers to no style; on an opened document SetStyle is also tried with the ids the library documents as predefined, each only when StyleExists/GetStyle confirm it on that document",
			"the note/numbering registries are per document since /repo 996cdc4: every reopen starts from empty registries, the same-process/fresh-process flag of the reopen op no longer changes anything",
			"a style counts as unused (removable) when no part of the most recent judged save of the document object refers to it (the harness's own reading of that package; before the first save: the package it was opened from), no op since then gave it or may have given it to a body element (heading op: its HeadingN; any TOC op: all TOC ids and Heading1; markdown conversion: heading/quote/code ids) and no known style is based on it",
			"X4 expectations are dropped when the document object is replaced (reopen, markdown conversion, template render) and when a style is removed: the statement promises presence in the next save only",
			"template rendering is used as one more way (besides Open) in which a document object with its own list/note/style definitions comes into being; it is rendered with empty template data and the generated texts contain no template syntax, so the rendered copy must resolve every id exactly as its base does",
			"namespace bindings of the parts of a start package are rewritten by the harness (same infoset; the styles part loses the root's mc:Ignorable attribute, whose prefixes it no longer declares, and in one layout gains comments and a w:latentStyles block); ids are resolved by expanded names (namespace URI + local name), never by prefix - a definition written with a prefix that is not bound to the WordprocessingML namespace defines nothing",
			"with two document objects in one history every op goes to the current one and each object has its own bookkeeping (registered ids, expectations, what it was opened from); both objects' packages are judged with their own bookkeeping"},
		MustSee: map[string]float64{"saves>=2": 0.5, "style/list/toc-op-between-saves": 0.3, "opened-then-extended": 0.15, "start:foreign": 0.15, "start:near-miss-ids": 0.02,
			"style:early": 0.2, "style:after-save": 0.08, "style:on-opened": 0.15, "remove:heading-style": 0.05, "heading:after-its-style-removed": 0.03, "toc:after-removed-toc-style": 0.01, "op:pstyle": 0.2, "pstyle:api-style": 0.05, "heading:9": 0.05, "op:autotoc": 0.05, "op:toc": 0.05,
			"op:tblstyle-template": 0.05, "op:tblcustom": 0.03, "op:list": 0.2, "op:note": 0.3, "list:after-open-with-lists": 0.03,
			"note:after-open-with-notes": 0.03, "op:render": 0.1, "render:of-opened": 0.05, "render:base-with-lists": 0.04, "list:after-render": 0.03, "note:after-render": 0.03,
			"list:after-render-of-extended-opened": 0.008, "base-judged-after-render": 0.1, "start:ns-ns0": 0.015, "start:ns-default": 0.015, "start:ns-default-ns1": 0.015,
			"list:after-open-ns-ns0": 0.004, "note:after-open-ns-ns0": 0.004, "reopen:fresh-process": 0.15, "reopen:same-process": 0.15, "op:md": 0.05, "op:st.mod": 0.1,
			"note:blank-text": 0.1, "op:fnrun": 0.05, "op:rej": 0.08, "rej:error-result": 0.04, "rejected-call-then-judged-save": 0.15,
			"start:no-style-definitions": 0.06, "start:minimal": 0.03, "start:styles-absent": 0.02, "start:styles-empty": 0.01, "start:styles-hollow": 0.01,
			"nostyles:styled-content": 0.05, "remove:toc-style": 0.05, "remove:toc-style-unused-by-existing-toc": 0.03, "updatetoc:after-removed-toc-style": 0.03,
			"start:styles-ns-ns0": 0.012, "start:styles-ns-default": 0.012, "start:styles-ns-default-ns1": 0.012, "start:styles-form-pretty": 0.012, "start:styles-form-dressed": 0.012,
			"start:main-ns-ns0": 0.012, "style:redefines-definition-of-opened-part": 0.04, "style:redefines-definition-of-opened-part-ns": 0.005,
			"op:swap": 0.1, "swap:back-and-forth": 0.05, "swap:second-new": 0.05, "swap:second-opened-from-save": 0.05,
			"many:more-than-9-of-a-kind": 0.04, "many:more-than-16-of-a-kind": 0.01, "many:more-than-64-of-a-kind": 0.001, "start:more-than-nine-lists-or-notes": 0.02},
	})
}

package c08

import (
	"math"
	"reflect"
	"sort"
)

// hsh is FNV-1a (64 bit), written out so that hashing allocates nothing.
type hsh uint64

func (h *hsh) Write(b []byte) {
	x := uint64(*h)
	for _, c := range b {
		x = (x ^ uint64(c)) * 1099511628211
	}
	*h = hsh(x)
}

func (h *hsh) str(s string) {
	x := uint64(*h)
	for i := 0; i < len(s); i++ {
		x = (x ^ uint64(s[i])) * 1099511628211
	}
	*h = hsh(x)
}

// exported caches, per struct type, the indices of the exported fields.
var exported = map[reflect.Type][]int{}

func exportedFields(t reflect.Type) []int {
	if ix, ok := exported[t]; ok {
		return ix
	}
	ix := []int{}
	for i := 0; i < t.NumField(); i++ {
		if t.Field(i).PkgPath == "" {
			ix = append(ix, i)
		}
	}
	exported[t] = ix
	return ix
}

// finger is a content fingerprint of one body element: a hash over every exported field reachable
// from it (pointers followed, slices in order). Two fingerprints of the same element taken before
// and after a call are equal iff the call left everything the element says unchanged; nothing of the
// library's serialiser is involved.
func finger(e interface{}) uint64 {
	h := hsh(14695981039346656037)
	walk(&h, reflect.ValueOf(e), 0)
	return uint64(h)
}

func fingers(es []interface{}) []uint64 {
	out := make([]uint64, len(es))
	for i, e := range es {
		out[i] = finger(e)
	}
	return out
}

func wr(h *hsh, tag byte, n uint64) {
	x := (uint64(*h) ^ uint64(tag)) * 1099511628211
	for i := 0; i < 8; i++ {
		x = (x ^ (n >> (8 * i) & 0xff)) * 1099511628211
	}
	*h = hsh(x)
}

func walk(h *hsh, v reflect.Value, depth int) {
	if depth > 200 { // element trees are shallow; a cycle would be a defect of another kind
		wr(h, 'D', 0)
		return
	}
	if !v.IsValid() {
		wr(h, 'z', 0)
		return
	}
	switch v.Kind() {
	case reflect.Ptr, reflect.Interface:
		if v.IsNil() {
			wr(h, 'n', 0)
			return
		}
		wr(h, 'p', 0)
		if v.Kind() == reflect.Interface {
			h.str(v.Elem().Type().String())
		}
		walk(h, v.Elem(), depth+1)
	case reflect.Struct:
		wr(h, 's', uint64(v.NumField()))
		for _, i := range exportedFields(v.Type()) { // unexported fields are not part of what the element says
			walk(h, v.Field(i), depth+1)
		}
	case reflect.Slice, reflect.Array:
		if v.Kind() == reflect.Slice && v.Type().Elem().Kind() == reflect.Uint8 {
			wr(h, 'b', uint64(v.Len()))
			h.Write(v.Bytes())
			return
		}
		wr(h, 'l', uint64(v.Len()))
		for i := 0; i < v.Len(); i++ {
			walk(h, v.Index(i), depth+1)
		}
	case reflect.Map:
		wr(h, 'm', uint64(v.Len()))
		if v.Type().Key().Kind() == reflect.String {
			keys := v.MapKeys()
			sort.Slice(keys, func(i, j int) bool { return keys[i].String() < keys[j].String() })
			for _, k := range keys {
				h.str(k.String())
				walk(h, v.MapIndex(k), depth+1)
			}
		}
	case reflect.String:
		wr(h, 't', uint64(v.Len()))
		h.str(v.String())
	case reflect.Bool:
		if v.Bool() {
			wr(h, 'B', 1)
		} else {
			wr(h, 'B', 0)
		}
	case reflect.Int, reflect.Int8, reflect.Int16, reflect.Int32, reflect.Int64:
		wr(h, 'i', uint64(v.Int()))
	case reflect.Uint, reflect.Uint8, reflect.Uint16, reflect.Uint32, reflect.Uint64, reflect.Uintptr:
		wr(h, 'u', v.Uint())
	case reflect.Float32, reflect.Float64:
		wr(h, 'f', math.Float64bits(v.Float()))
	default: // func, chan, unsafe pointer: no content
		wr(h, '?', uint64(v.Kind()))
	}
}

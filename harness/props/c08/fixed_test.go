package c08

import (
	"os"

	"wzverif/internal/ops"
)

// fixedCases are hand-written representatives of input classes the generator also reaches; every run judges them
// first. None of them encodes a particular library change: each is a shape of history the statement quantifies over.
func fixedCases() []Case {
	if os.Getenv("C08_NOFIXED") != "" { // sensitivity runs that want to see what the generated search finds by itself
		return nil
	}
	para := func(s string) ops.Op { return ops.Op{K: "para", S: []string{s}} }
	rmLive := func(sel int) ops.Op { return ops.Op{K: "rmhandle", S: []string{"live"}, I: []int{sel}} }
	// ops.Sel(sel, n) = sel%(n+3)-1
	badCustom := ops.Op{K: "pagesettings", S: []string{"Custom", "portrait", ""}, F: []float64{0, 0, 25.4, 25.4, 25.4, 25.4, 12.7, 12.7, 0}, I: []int{0, 0}, B: []bool{false}}
	badOrient := ops.Op{K: "pagesettings", S: []string{"A4", "diagonal", "lines"}, F: []float64{0, 0, 25.4, 25.4, 25.4, 25.4, 12.7, 12.7, 0}, I: []int{312, 0}, B: []bool{false}}
	nilSettings := ops.Op{K: "pagesettings", B: []bool{true}}
	sect := ops.Op{K: "addelem", I: []int{2}}
	twoSections := &Base{Blocks: []Blk{{K: "p"}, {K: "psect"}, {K: "p"}}, BodySect: 1}
	tbl := ops.Op{K: "table", I: []int{1, 1, 2000}}
	return []Case{
		// two documents of one process edited alternately (the second one created while the first has content), a
		// handle of the one offered to the other, both saved at the end
		{Ops: []ops.Op{para("A1"), para("A2"), para("B1"), para("A3"), tbl, {K: "rmhandle", S: []string{"peer"}, I: []int{0}}, {K: "rmelemat", I: []int{1}}, para("B2"), {K: "save"}},
			On: []int{0, 0, 1, 0, 1, 0, 1, 1, 0}},
		// three documents; one of them grows past 32 elements while the others stay short; runs of removals
		{Ops: []ops.Op{para("A"), para("B"), para("C"), para("A"), {K: "pagebreak"}, {K: "rmparaat", I: []int{1}}, para("B"), {K: "rmelemat", I: []int{1}}, para("C"), {K: "rmhandle", S: []string{"copy"}, I: []int{3}}},
			On: []int{0, 1, 2, 0, 1, 0, 1, 0, 2, 0}, Rep: []int{3, 2, 1, 33, 2, 9, 1, 30, 2, 1}},
		// three documents opened from the same package, edited alternately
		{Base: twoSections, PeerOpen: true, Ops: []ops.Op{para("x"), para("y"), rmLive(0), {K: "rmparaat", I: []int{1}}, para("z"), sect, {K: "rmhandle", S: []string{"peer"}, I: []int{2}}},
			On: []int{0, 1, 1, 0, 2, 1, 0}, Saves: 1},
		// rejected page-setting calls on a body without section settings, followed by index-based removals and a save
		{Ops: []ops.Op{para("A"), badCustom, badOrient, nilSettings, {K: "docgridraw", S: []string{""}, I: []int{1, 1}}, {K: "margins", F: []float64{-1, 1, 1, 1}},
			para("B"), para("C"), {K: "rmelemat", I: []int{2}}, {K: "rmelemat", I: []int{3}}, {K: "save"}}},
		// the same with section settings already there (rejected calls must not touch them either)
		{Ops: []ops.Op{para("A"), {K: "orient", B: []bool{true}}, badCustom, badOrient, {K: "custompage", F: []float64{5, 5}}, {K: "orientraw", S: []string{"diagonal"}}, para("B")}, Saves: 1},
		// a rejected table / rejected table-cell edit in the middle of a history
		{Ops: []ops.Op{para("A"), {K: "table", I: []int{0, 2, 1000}}, {K: "table", I: []int{2, 2, 1000}}, {K: "celltext", I: []int{0, 7, 7}, S: []string{"x"}}, {K: "autotoc", S: []string{"t"}, I: []int{3}}, {K: "updatetoc"}, para("B")}, Saves: 1},
		// opened two-section document: saved as opened, after an append, after removing the appended paragraph
		// again (the body-level section settings are last once more), after removing earlier paragraphs
		{Base: twoSections, Ops: []ops.Op{para("four"), rmLive(3), {K: "rmparaat", I: []int{1}}, rmLive(0), {K: "pagebreak"}, {K: "rmelemat", I: []int{1}}}, Saves: 1},
		// opened document with section break, bookmarks, content control and table but no body-level section settings
		{Base: &Base{Blocks: []Blk{{K: "bm"}, {K: "psect", V: 1}, {K: "sdt"}, {K: "tbl", V: 1}, {K: "psect", V: 2}, {K: "p", V: 3}}, BodySect: 0},
			Ops: []ops.Op{para("x"), {K: "rmelemat", I: []int{8}}, {K: "header", I: []int{0}, S: []string{"h"}}, rmLive(1)}, Saves: 1},
		// section elements handed to Body.AddElement: first, in the middle and last
		{Ops: []ops.Op{sect, para("A"), sect, para("B"), rmLive(1), sect, {K: "rmelemat", I: []int{4}}, {K: "rmelemat", I: []int{1}}}, Saves: 1},
	}
}

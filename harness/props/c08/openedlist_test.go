package c08

import (
	"github.com/zerx-lab/wordZero/pkg/document"

	"wzverif/internal/canon"
	"wzverif/internal/kit"
)

// checkOpenedList judges L6 on a document that was just opened from the package the harness wrote (main = the main
// part as written): the element list a history of index-based calls starts from is the body AS WRITTEN, in
// document order. Element indices and paragraph indices of an opened body can only mean positions among the
// children of w:body; a list in another order makes RemoveElementAt(i) / RemoveParagraphAt(i) remove something
// else than the i-th child although every later call is consistent with the list.
//
// Demanded (the written body is read with the harness's own XML reader, nothing of the library):
//   - the elements of the list that are not section settings are, one for one and in order, the children of w:body
//     that are not w:sectPr (same kind, same text / row count / bookmark name);
//   - when the package has a body-level w:sectPr - always the LAST child of w:body - the list holds section
//     settings and they are its last element (the element index of the body-level settings is the index of that
//     child).
//
// Not demanded (the statement is silent): whether a section break (w:sectPr inside a paragraph's w:pPr), which is
// not a child of w:body, is represented by an element of its own, and where such an element sits.
func checkOpenedList(res *kit.Result, d *document.Document, main string, who string) bool {
	root, err := canon.Parse([]byte(main))
	if err != nil {
		res.Count("base-main-part-not-parsed", 1)
		return true
	}
	body := root.Kid(canon.W, "body")
	if body == nil {
		res.Count("base-main-part-not-parsed", 1)
		return true
	}
	res.Eval("C08.L6")
	var want []string
	bodySect := false
	for i, k := range body.Kids {
		if k.Is(canon.W, "sectPr") {
			if i == len(body.Kids)-1 {
				bodySect = true
			}
			continue
		}
		want = append(want, describeXML(k))
	}
	var got []string
	for _, e := range d.Body.Elements {
		if isSect(e) {
			continue
		}
		got = append(got, describe(e))
	}
	if len(got) != len(want) {
		res.Fail("C08.L6", "%s: the opened body's element list holds %d elements other than section settings, the package's w:body has %d such children\n got=%q\nwant=%q", who, len(got), len(want), got, want)
		return false
	}
	for i := range want {
		if got[i] != want[i] {
			res.Fail("C08.L6", "%s: element %d (section settings not counted) of the opened body's list is %q, child %d of the package's w:body is %q\n got=%q\nwant=%q", who, i, got[i], i, want[i], got, want)
			return false
		}
	}
	if bodySect {
		res.Label("opened-with-body-level-sectPr")
		el := d.Body.Elements
		if n := len(el); n == 0 || !isSect(el[n-1]) {
			var all []string
			for _, e := range el {
				all = append(all, describe(e))
			}
			res.Fail("C08.L6", "%s: the package's w:body ends with the body-level w:sectPr (child %d of %d), but the last element of the opened body's list is not the section settings: element indices do not designate the body's children in document order\n list=%q", who, len(body.Kids)-1, len(body.Kids), all)
			return false
		}
		if _, inner := countInner(body); inner > 0 {
			res.Label("opened-section-break-and-body-level-sectPr")
		}
	}
	return true
}

// countInner counts the paragraphs of w:body and those among them that carry a w:sectPr in their w:pPr.
func countInner(body *canon.Node) (paras, inner int) {
	for _, k := range body.Kids {
		if !k.Is(canon.W, "p") {
			continue
		}
		paras++
		if ppr := k.Kid(canon.W, "pPr"); ppr != nil && ppr.Kid(canon.W, "sectPr") != nil {
			inner++
		}
	}
	return
}

package c08

import (
	"bytes"
	"fmt"
	"io"
	"os"
	"path/filepath"
	"strings"

	"github.com/zerx-lab/wordZero/pkg/document"

	"wzverif/internal/kit"
	"wzverif/internal/ops"
)

var openKF = kit.OpenFindings("C08")

func isSect(e interface{}) bool {
	_, ok := e.(*document.SectionProperties)
	return ok
}

// dstate is one live document of a history together with its reference model.
type dstate struct {
	name    string
	x       *ops.Exec
	doc     *document.Document
	model   []interface{}
	removed []*document.Paragraph
	fp      []uint64 // content fingerprints of the model's elements before the call (nil = to be taken)

	appends, okRemovals, failedRemovals int
	kindsSeen                           map[string]bool
	sectBeforeAppend                    bool
}

func (s *dstate) hasSect() bool {
	for _, e := range s.model {
		if isSect(e) {
			return true
		}
	}
	return false
}

// call is one API call of the expanded history: op i of the case (its r-th repetition) on document on.
type call struct {
	i, r, n, mode, on int // n: number of repetitions of op i
	op                ops.Op
}

// marker makes the text of a mode-0 append unique within the history.
func (c call) marker() string {
	m := fmt.Sprintf("#%d", c.i)
	if c.r > 0 {
		m += fmt.Sprintf(".%d", c.r)
	}
	if c.on > 0 {
		m += fmt.Sprintf("@%d", c.on)
	}
	return m
}

const maxDocs = 3

var onTag = map[string]string{"1": "@1", "2": "@2"}

const maxRep = 80

func run(c Case) *kit.Result {
	res := &kit.Result{}
	document.VerifResetGlobals()
	dir, _ := os.MkdirTemp(kit.Scratch, "c08-")
	defer os.RemoveAll(dir)
	var states [maxDocs]*dstate
	var raw []byte
	if c.Base != nil {
		var err error
		if raw, err = c.Base.docx(); err != nil {
			res.Count("base-not-written", 1)
			return res
		}
	}
	// open makes a document of the package another producer wrote (the start of document 0 and, with PeerOpen,
	// of the other documents of the history as well)
	open := func() (*document.Document, bool) {
		var d *document.Document
		var err error
		if p, st := kit.Try(func() { d, err = document.OpenFromMemory(io.NopCloser(bytes.NewReader(raw))) }); p != nil {
			res.Fail("C08.L0", "OpenFromMemory of the start document panicked: %v [%s]", p, st)
			return nil, false
		}
		if err != nil || d == nil || d.Body == nil {
			res.Count("base-not-opened", 1) // what Open accepts is not this property's subject
			return nil, false
		}
		return d, true
	}
	newState := func(k int) *dstate {
		sub := filepath.Join(dir, fmt.Sprintf("d%d", k))
		os.MkdirAll(sub, 0o755)
		s := &dstate{name: fmt.Sprintf("%d", k), kindsSeen: map[string]bool{}}
		if c.Base != nil && (k == 0 || c.PeerOpen) {
			d, ok := open()
			if !ok {
				return nil
			}
			s.x = &ops.Exec{Doc: d, Dir: sub}
			s.x.Paras = d.Body.GetParagraphs()
			s.x.Tables = d.Body.GetTables()
			s.model = append(s.model, d.Body.Elements...)
			// L6: the list the history starts from is the body as written, in document order
			if !checkOpenedList(res, d, c.Base.mainPart(), fmt.Sprintf("document %d as opened", k)) {
				return nil
			}
			if k > 0 {
				res.Label("peer-opened-from-the-same-package")
			}
		} else {
			s.x = ops.NewExec(sub)
		}
		s.doc = s.x.Doc
		return s
	}
	if states[0] = newState(0); states[0] == nil {
		return res
	}
	if c.Base != nil {
		// the history starts from a document another producer wrote
		d, model := states[0].doc, states[0].model
		res.Label("opened-base")
		ns, content := 0, 0
		for _, e := range model {
			if isSect(e) {
				ns++
			} else {
				content++
			}
		}
		if ns > 1 {
			res.Label("opened-with-two-sectPr")
		}
		if _, inner := c.Base.written(); inner > 0 {
			res.Label("opened-with-inner-sectPr") // a section break: w:sectPr inside a paragraph's w:pPr
			if ns > 0 && !isSect(model[len(model)-1]) {
				res.Label("opened-list-sectPr-not-last")
			}
		}
		if w, _ := c.Base.written(); w == content {
			res.Label("opened-list-has-every-written-child")
		}
		if len(model) > 16 {
			res.Label("opened-with-over-16-elements")
		}
		if len(model) > 32 {
			res.Label("opened-with-over-32-elements")
		}
		if !checkSave(res, d, model, "saved as opened") {
			return res
		}
	}
	// a further document of the process that the history never edits: the source of foreign handles. It is a
	// live document like the others: no call on another document may change it.
	other := document.New()
	foreign := other.AddParagraph("foreign")
	otherState := &dstate{name: "F (the never-edited document that supplies foreign handles)", doc: other, model: []interface{}{foreign}}
	live := func() []*dstate {
		out := make([]*dstate, 0, maxDocs+1)
		for _, s := range states {
			if s != nil {
				out = append(out, s)
			}
		}
		return append(out, otherState)
	}
	// documents 1.. are created when the first call addresses them (so: in the middle of the history of the others)
	created := 1
	stateOf := func(on int) *dstate {
		if on < 0 || on >= maxDocs {
			on = 0
		}
		if states[on] == nil {
			if states[on] = newState(on); states[on] == nil {
				return nil
			}
			created++
			res.Label("several-documents")
			if len(states[0].model) > 0 {
				res.Label("document-created-while-another-has-content")
			}
		}
		return states[on]
	}
	// the expanded history: op i is repeated Rep[i] times (each repetition is a call of its own, judged like any other)
	var calls []call
	for i, op := range c.Ops {
		cl := call{i: i, op: op}
		if i < len(c.Mode) {
			cl.mode = c.Mode[i]
		}
		if i < len(c.On) {
			cl.on = c.On[i]
		}
		n := 1
		if i < len(c.Rep) && c.Rep[i] > 1 {
			if n = c.Rep[i]; n > maxRep {
				n = maxRep
			}
			res.Label("repeated-call")
		}
		cl.n = n
		for r := 0; r < n; r++ {
			cl.r = r
			calls = append(calls, cl)
		}
	}
	sectMiddle := false
	var shape []string
	if c.Base != nil {
		shape = append(shape, fmt.Sprintf("base:%d:%d", len(c.Base.Blocks), c.Base.BodySect))
	}
	var last *dstate
	switches := 0
	for _, cl := range calls {
		i, op := cl.i, cl.op
		s := stateOf(cl.on)
		if s == nil {
			return res
		}
		doc, x := s.doc, s.x
		if last != nil && last != s {
			switches++
		}
		last = s
		for _, o := range live() { // every live document's contents as they are before the call
			if o != s && o.fp == nil {
				o.fp = fingers(o.model)
			}
		}
		before := append([]interface{}(nil), doc.Body.Elements...)
		if !same(before, s.model) {
			res.Fail("C08.L1", "before op %d the body is not the model", i)
			return res
		}
		if s.fp == nil { // the previous call was allowed to change element content (or there was none)
			s.fp = fingers(s.model)
		}
		// undisturbed reports the first element of the model (other than skip / section settings when
		// exceptSect) whose content differs from what it was before the call (now = the list after the call, in which element skip is gone).
		var fpNow []uint64 // fingerprints of the list after the call, filled by undisturbed
		undisturbed := func(now []interface{}, skip int, exceptSect bool) (int, bool) {
			fpNow = make([]uint64, 0, len(now))
			j := 0
			for k := range s.model {
				if k == skip {
					continue
				}
				if j >= len(now) {
					break
				}
				f := finger(now[j])
				if !(exceptSect && isSect(s.model[k])) && f != s.fp[k] {
					return k, false
				}
				fpNow = append(fpNow, f)
				j++
			}
			for ; j < len(now); j++ {
				fpNow = append(fpNow, finger(now[j]))
			}
			return -1, true
		}
		mode := cl.mode
		grp := kindGroup[op.K]
		if grp == "" {
			grp = "other"
		}
		// the text argument of the text-taking append constructors: mode 0 makes paragraph texts distinguishable in
		// the saved part, modes 1 and 2 pass the drawn text itself / the empty string
		if grp == "append" && len(op.S) > 0 && op.K != "math" && op.K != "mathlatex" && op.K != "toc" {
			switch {
			case mode == 1 && textKinds[op.K]:
				res.Label("raw-text-append")
			case mode == 2 && textKinds[op.K]:
				op.S = append([]string{""}, op.S[1:]...)
			default:
				op.S = append([]string{op.S[0] + cl.marker()}, op.S[1:]...)
			}
			if textKinds[op.K] && op.S[0] == "" {
				res.Label("empty-text-append")
				if op.K == "footnote" || op.K == "endnote" {
					res.Label("empty-text-note")
				}
				if len(s.model) > 0 {
					if _, ok := s.model[len(s.model)-1].(*document.Paragraph); ok {
						res.Label("empty-text-append-after-paragraph")
					}
				}
			}
		}
		sv := func(k int) string {
			if k < len(op.S) {
				return op.S[k]
			}
			return ""
		}
		iv := func(k int) int {
			if k < len(op.I) {
				return op.I[k]
			}
			return 0
		}
		fv := func(k int) float64 {
			if k < len(op.F) {
				return op.F[k]
			}
			return 0
		}
		var ret bool
		var err error // the error the call returned: the call was REJECTED
		var target interface{}
		expectRemove := -2 // -2: not a removal; -1: must fail; >=0: index to be removed
		var pan interface{}
		var st string
		switch op.K {
		case "rmhandle":
			var h *document.Paragraph
			paras := []*document.Paragraph{}
			for _, e := range s.model {
				if p, ok := e.(*document.Paragraph); ok {
					paras = append(paras, p)
				}
			}
			switch sv(0) {
			case "live":
				if len(paras) > 0 {
					h = paras[ops.In(iv(0), len(paras))]
				}
			case "removed":
				if len(s.removed) > 0 {
					h = s.removed[ops.In(iv(0), len(s.removed))]
				}
			case "foreign":
				h = foreign
			case "peer":
				// a paragraph that is in the body of ANOTHER live document of this history
				var pp []*document.Paragraph
				for _, o := range live() {
					if o != s {
						for _, e := range o.model {
							if p, ok := e.(*document.Paragraph); ok {
								pp = append(pp, p)
							}
						}
					}
				}
				h = pp[ops.In(iv(0), len(pp))] // never empty: the foreign document holds one paragraph
			case "copy":
				// a paragraph object that says exactly what a paragraph of this body says but is not in the body
				if len(paras) > 0 {
					cp := *paras[ops.In(iv(0), len(paras))]
					h = &cp
					if len(paras) > 1 {
						res.Label("rmhandle:copy-of-one-of-several")
					}
				}
			}
			expectRemove = -1
			if h != nil {
				if j := idx(s.model, h); j >= 0 {
					expectRemove = j
				}
			}
			target = h
			res.Label("rmhandle:" + sv(0))
			pan, st = kit.Try(func() { ret = doc.RemoveParagraph(h) })
		case "rmparaat":
			np := 0
			for _, e := range s.model {
				if _, ok := e.(*document.Paragraph); ok {
					np++
				}
			}
			k := ops.Sel(iv(0), np)
			expectRemove = -1
			cnt := 0
			for j, e := range s.model {
				if _, ok := e.(*document.Paragraph); ok {
					if cnt == k {
						expectRemove = j
					}
					cnt++
				}
			}
			if k < 0 || k >= np {
				res.Label("rm-out-of-range")
			}
			pan, st = kit.Try(func() { ret = doc.RemoveParagraphAt(k) })
		case "rmelemat":
			k := ops.Sel(iv(0), len(s.model))
			expectRemove = -1
			if k >= 0 && k < len(s.model) {
				expectRemove = k
			} else {
				res.Label("rm-out-of-range")
			}
			pan, st = kit.Try(func() { ret = doc.RemoveElementAt(k) })
		case "addelem":
			var e interface{}
			switch iv(0) {
			case 0:
				e = &document.Paragraph{Runs: []document.Run{{Text: document.Text{Content: fmt.Sprintf("added%d", i)}}}}
			case 1:
				t, _ := doc.CreateTable(&document.TableConfig{Rows: 1, Cols: 1, Width: 1000})
				e = t
			default:
				e = &document.SectionProperties{PageSize: &document.PageSizeXML{W: "11906", H: "16838"}}
				res.Label("addelem-sectPr")
			}
			target = e
			pan, st = kit.Try(func() { doc.Body.AddElement(e) })
		case "listitemnil":
			pan, st = kit.Try(func() { x.Paras = append(x.Paras, doc.AddListItem(sv(0), nil)) })
		case "pagesettings":
			var ps *document.PageSettings
			if len(op.B) == 0 || !op.B[0] {
				ps = &document.PageSettings{Size: pageSizeOf(sv(0)), CustomWidth: fv(0), CustomHeight: fv(1), Orientation: document.PageOrientation(sv(1)),
					MarginTop: fv(2), MarginRight: fv(3), MarginBottom: fv(4), MarginLeft: fv(5), HeaderDistance: fv(6), FooterDistance: fv(7), GutterWidth: fv(8),
					DocGridType: document.DocGridType(sv(2)), DocGridLinePitch: iv(0), DocGridCharSpace: iv(1)}
			}
			pan, st = kit.Try(func() { err = doc.SetPageSettings(ps) })
		case "orientraw":
			pan, st = kit.Try(func() { err = doc.SetPageOrientation(document.PageOrientation(sv(0))) })
		case "docgridraw":
			pan, st = kit.Try(func() { err = doc.SetDocGrid(document.DocGridType(sv(0)), iv(0), iv(1)) })
		default:
			pan, st = kit.Try(func() { err = x.Do(op) })
		}
		if pan != nil {
			res.Fail("C08.L0", "op %d %s panicked: %v [%s]", i, op.K, pan, st)
			return res
		}
		if err != nil {
			grp += "-err"
		}
		after := doc.Body.Elements
		if e := op.K + ":" + grp + onTag[s.name]; cl.r == 0 || len(shape) == 0 || shape[len(shape)-1] != e {
			shape = append(shape, e) // (a repeated call with the same outcome is one entry)
		}
		switch {
		case err != nil:
			// L5: a rejected call is neither an append nor a removal: the list is as before, element for element
			// and content for content (section settings included)
			res.Eval("C08.L5")
			res.Label("rejected-call")
			if strings.HasPrefix(grp, "section") {
				res.Label("rejected-page-call")
				if !s.hasSect() {
					res.Label("rejected-page-call-before-any-sectPr")
				}
			}
			if !same(after, s.model) {
				// the convenience setters read the current settings through GetPageSettings, which creates the
				// section element: known (see findings.go). The run goes on past it while the finding is open.
				if leakKinds[op.K] && !s.hasSect() && len(after) == len(s.model)+1 && same(after[:len(s.model)], s.model) && isSect(after[len(s.model)]) {
					res.Fail("C08.L5", "op %d %s returned an error (%v) but appended section settings to the body (len %d -> %d) [setter-leak op=%d kind=%s]", i, op.K, err, len(s.model), len(after), i, op.K)
					if !openKF[kfSetterLeak] {
						return res
					}
					s.model = append(s.model, after[len(s.model)])
					s.fp = nil
					continue
				}
				res.Fail("C08.L5", "op %d %s returned an error (%v) but changed the body's element list (len %d -> %d)", i, op.K, err, len(s.model), len(after))
				return res
			}
			if k, ok := undisturbed(after, -1, false); !ok {
				res.Fail("C08.L5", "op %d %s returned an error (%v) but changed the content of element %d (%s)", i, op.K, err, k, describe(s.model[k]))
				return res
			}
		case tocKinds[op.K]:
			// AutoGenerateTOC / UpdateTOC that succeed: not judged here (C15); the model follows the document
			s.model = append([]interface{}(nil), after...)
			res.Count("toc-call-not-judged", 1)
		case grp == "remove":
			res.Eval("C08.L3")
			if expectRemove >= 0 {
				if !ret {
					res.Fail("C08.L3", "op %d %s: target exists at element index %d but the call reported failure", i, op.K, expectRemove)
					return res
				}
				want := append(append([]interface{}(nil), s.model[:expectRemove]...), s.model[expectRemove+1:]...)
				if !same(after, want) {
					res.Fail("C08.L3", "op %d %s reported success but did not remove exactly element %d (len %d -> %d)", i, op.K, expectRemove, len(s.model), len(after))
					return res
				}
				if k, ok := undisturbed(after, expectRemove, false); !ok {
					res.Fail("C08.L3", "op %d %s removed element %d and also changed the content of element %d (%s)", i, op.K, expectRemove, k, describe(s.model[k]))
					return res
				}
				if p, ok := s.model[expectRemove].(*document.Paragraph); ok {
					s.removed = append(s.removed, p)
				}
				s.model = want
				s.okRemovals++
				if s.appends >= 4 {
					res.Label("removal-after-4-appends")
				}
			} else {
				if ret {
					res.Fail("C08.L3", "op %d %s: target %v does not exist but the call reported success", i, op.K, target)
					return res
				}
				if !same(after, s.model) {
					res.Fail("C08.L3", "op %d %s reported failure but changed the body (len %d -> %d)", i, op.K, len(s.model), len(after))
					return res
				}
				if k, ok := undisturbed(after, -1, false); !ok {
					res.Fail("C08.L3", "op %d %s reported failure but changed the content of element %d (%s)", i, op.K, k, describe(s.model[k]))
					return res
				}
				s.failedRemovals++
			}
		case grp == "append":
			res.Eval("C08.L1")
			if len(after) < len(s.model) || !same(after[:len(s.model)], s.model) {
				res.Fail("C08.L1", "op %d %s disturbed the existing elements (len %d -> %d)", i, op.K, len(s.model), len(after))
				return res
			}
			// GenerateTOC is not one of the constructors the statement lists; what it may do to the headings it indexes is C15's
			if op.K != "toc" {
				if k, ok := undisturbed(after, -1, false); !ok {
					res.Fail("C08.L1", "op %d %s changed the content of element %d, which was already there (it now reads %q)", i, op.K, k, describe(s.model[k]))
					return res
				}
			}
			grown := after[len(s.model):]
			if len(grown) == 0 {
				res.Fail("C08.L1", "op %d %s succeeded but appended nothing", i, op.K)
				return res
			}
			for _, e := range grown {
				if idx(s.model, e) >= 0 {
					res.Fail("C08.L1", "op %d %s appended an element that is already in the body", i, op.K)
					return res
				}
				if isSect(e) && op.K != "addelem" {
					res.Fail("C08.L1", "op %d %s appended section settings", i, op.K)
					return res
				}
			}
			if target != nil && (len(grown) != 1 || grown[0] != target) {
				res.Fail("C08.L1", "op %d AddElement did not append exactly the given element", i)
				return res
			}
			s.appends++
			s.kindsSeen[op.K] = true
			if s.hasSect() {
				s.sectBeforeAppend = true
				sectMiddle = true
			}
			if len(grown) > 1 {
				res.Label("multi-element-append")
			}
			s.model = append(s.model, grown...)
		case grp == "section":
			res.Eval("C08.L1")
			if len(after) < len(s.model) || !same(after[:len(s.model)], s.model) {
				res.Fail("C08.L1", "op %d %s (page/header call) disturbed the existing elements", i, op.K)
				return res
			}
			if k, ok := undisturbed(after, -1, true); !ok {
				res.Fail("C08.L1", "op %d %s (page/header call) changed the content of element %d (%s)", i, op.K, k, describe(s.model[k]))
				return res
			}
			grown := after[len(s.model):]
			if len(grown) > 1 {
				res.Fail("C08.L1", "op %d %s appended %d elements", i, op.K, len(grown))
				return res
			}
			if len(grown) == 1 {
				if !isSect(grown[0]) {
					res.Fail("C08.L1", "op %d %s appended a %T", i, op.K, grown[0])
					return res
				}
				if s.hasSect() {
					res.Fail("C08.L1", "op %d %s created second section settings although the body already has them", i, op.K)
					return res
				}
			}
			s.model = append(s.model, grown...)
		default:
			if !same(after, s.model) {
				res.Fail("C08.L1", "op %d %s (not a body-structure call) changed the element list", i, op.K)
				return res
			}
		}
		// the other live documents of the process are bodies too: a call on this document is neither an append to
		// nor a removal from them, and it does not disturb the elements already there
		if cl2 := "C08.L1"; len(live()) > 1 {
			switch {
			case err != nil:
				cl2 = "C08.L5"
			case grp == "remove":
				cl2 = "C08.L3"
			}
			for _, o := range live() {
				if o == s {
					continue
				}
				if !same(o.doc.Body.Elements, o.model) {
					res.Fail(cl2, "op %d %s on document %s changed the element list of document %s, another live document (len %d -> %d)", i, op.K, s.name, o.name, len(o.model), len(o.doc.Body.Elements))
					return res
				}
				for k, e := range o.model {
					if finger(e) != o.fp[k] {
						res.Fail(cl2, "op %d %s on document %s changed the content of element %d (%s) of document %s, another live document", i, op.K, s.name, k, describe(e), o.name)
						return res
					}
				}
			}
		}
		// L2 accessors
		res.Eval("C08.L2")
		var wp []*document.Paragraph
		var wt []*document.Table
		for _, e := range s.model {
			switch v := e.(type) {
			case *document.Paragraph:
				wp = append(wp, v)
			case *document.Table:
				wt = append(wt, v)
			}
		}
		gp, gt := doc.Body.GetParagraphs(), doc.Body.GetTables()
		if len(gp) != len(wp) || len(gt) != len(wt) {
			res.Fail("C08.L2", "after op %d: GetParagraphs/GetTables return %d/%d, model has %d/%d", i, len(gp), len(gt), len(wp), len(wt))
			return res
		}
		for j := range gp {
			if gp[j] != wp[j] {
				res.Fail("C08.L2", "after op %d: GetParagraphs()[%d] is not the model's paragraph", i, j)
				return res
			}
		}
		for j := range gt {
			if gt[j] != wt[j] {
				res.Fail("C08.L2", "after op %d: GetTables()[%d] is not the model's table", i, j)
				return res
			}
		}
		switch n := len(s.model); {
		case n > 64:
			res.Label("body-over-64-elements")
			fallthrough
		case n > 32:
			res.Label("body-over-32-elements")
			fallthrough
		case n > 16:
			res.Label("body-over-16-elements")
		}
		// lists that hold several section elements are where the serialiser has to choose: while the list is in
		// that state the saved part is judged after every call
		nsect := 0
		for _, e := range s.model {
			if isSect(e) {
				nsect++
			}
		}
		// (of a repeated call only the first and the last repetition are followed by such a save)
		// and, in the several-section state, only calls that may have changed the list or the section settings)
		if op.K == "save" || ((c.Saves == 1 || (nsect > 1 && err == nil && grp != "other")) && (cl.r == 0 || cl.r == cl.n-1)) {
			switch {
			case op.K == "save":
				res.Count("saved-parts-judged:save-call", 1)
			case nsect > 1:
				res.Count("saved-parts-judged:several-sectPr", 1)
			default:
				res.Count("saved-parts-judged:after-every-call", 1)
			}
			if !checkSave(res, doc, s.model, fmt.Sprintf("save after op %d (%s)", i, op.K)) {
				return res
			}
		}
		s.fp = nil
		if len(fpNow) == len(s.model) && (err != nil || grp == "remove" || grp == "append" || grp == "section") && !tocKinds[op.K] {
			s.fp = fpNow // judged calls: the list after the call has just been fingerprinted
		}
	}
	for _, s := range live() {
		if s == otherState {
			continue // (never edited; its list and contents have been compared after every call)
		}
		where := "final save"
		if created > 1 {
			where = "final save of document " + s.name
		}
		checkSave(res, s.doc, s.model, where)
	}
	if sectMiddle {
		res.Label("sectPr-in-the-middle")
	}
	if c.Saves == 1 {
		res.Label("saved-after-every-call")
	}
	if switches >= 2 {
		res.Label("documents-edited-alternately")
	}
	for _, s := range states {
		if s == nil {
			continue
		}
		if s.failedRemovals > 0 {
			res.Label("failed-removal")
		}
		if s.okRemovals >= 1 && s.appends >= 4 && len(s.kindsSeen) >= 3 && s.sectBeforeAppend {
			res.Nontrivial = true
		}
	}
	res.Shape = strings.Join(shape, "|")
	return res
}

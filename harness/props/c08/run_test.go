package c08

import (
	"bytes"
	"fmt"
	"io"
	"os"
	"strings"

	"github.com/zerx-lab/wordZero/pkg/document"

	"wzverif/internal/kit"
	"wzverif/internal/ops"
)

var openKF = kit.OpenFindings("C08")

func isSect(e interface{}) bool {
	_, ok := e.(*document.SectionProperties)
	return ok
}

func run(c Case) *kit.Result {
	res := &kit.Result{}
	document.VerifResetGlobals()
	dir, _ := os.MkdirTemp(kit.Scratch, "c08-")
	defer os.RemoveAll(dir)
	x := ops.NewExec(dir)
	var model []interface{}
	if c.Base != nil {
		// the history starts from a document another producer wrote
		raw, err := c.Base.docx()
		if err != nil {
			res.Count("base-not-written", 1)
			return res
		}
		var d *document.Document
		if p, st := kit.Try(func() { d, err = document.OpenFromMemory(io.NopCloser(bytes.NewReader(raw))) }); p != nil {
			res.Fail("C08.L0", "OpenFromMemory of the start document panicked: %v [%s]", p, st)
			return res
		}
		if err != nil || d == nil || d.Body == nil {
			res.Count("base-not-opened", 1) // what Open accepts is not this property's subject
			return res
		}
		x.Doc = d
		x.Paras = d.Body.GetParagraphs()
		x.Tables = d.Body.GetTables()
		model = append(model, d.Body.Elements...)
		res.Label("opened-base")
		ns, content := 0, 0
		for _, e := range model {
			if isSect(e) {
				ns++
			} else {
				content++
			}
		}
		if ns > 1 {
			res.Label("opened-with-two-sectPr")
		}
		if _, inner := c.Base.written(); inner > 0 {
			res.Label("opened-with-inner-sectPr") // a section break: w:sectPr inside a paragraph's w:pPr
			if ns > 0 && !isSect(model[len(model)-1]) {
				res.Label("opened-list-sectPr-not-last")
			}
		}
		if w, _ := c.Base.written(); w == content {
			res.Label("opened-list-has-every-written-child")
		}
		if !checkSave(res, d, model, "saved as opened") {
			return res
		}
	}
	doc := x.Doc
	other := document.New()
	foreign := other.AddParagraph("foreign")
	var removed []*document.Paragraph
	hasSect := func() bool {
		for _, e := range model {
			if isSect(e) {
				return true
			}
		}
		return false
	}
	appends, kindsSeen, okRemovals, failedRemovals, sectBeforeAppend, sectMiddle := 0, map[string]bool{}, 0, 0, false, false
	var shape []string
	if c.Base != nil {
		shape = append(shape, fmt.Sprintf("base:%d:%d", len(c.Base.Blocks), c.Base.BodySect))
	}
	var fp []uint64 // content fingerprints of the model's elements before the call (nil = to be taken)
	for i, op := range c.Ops {
		before := append([]interface{}(nil), doc.Body.Elements...)
		if !same(before, model) {
			res.Fail("C08.L1", "before op %d the body is not the model", i)
			return res
		}
		if fp == nil { // the previous call was allowed to change element content (or there was none)
			fp = fingers(model)
		}
		// undisturbed reports the first element of the model (other than skip / section settings when
		// exceptSect) whose content differs from what it was before the call (now = the list after the call, in which element skip is gone).
		var fpNow []uint64 // fingerprints of the list after the call, filled by undisturbed
		undisturbed := func(now []interface{}, skip int, exceptSect bool) (int, bool) {
			fpNow = make([]uint64, 0, len(now))
			j := 0
			for k := range model {
				if k == skip {
					continue
				}
				if j >= len(now) {
					break
				}
				f := finger(now[j])
				if !(exceptSect && isSect(model[k])) && f != fp[k] {
					return k, false
				}
				fpNow = append(fpNow, f)
				j++
			}
			for ; j < len(now); j++ {
				fpNow = append(fpNow, finger(now[j]))
			}
			return -1, true
		}
		mode := 0
		if i < len(c.Mode) {
			mode = c.Mode[i]
		}
		grp := kindGroup[op.K]
		if grp == "" {
			grp = "other"
		}
		// the text argument of the text-taking append constructors: mode 0 makes paragraph texts distinguishable in
		// the saved part, modes 1 and 2 pass the drawn text itself / the empty string
		if grp == "append" && len(op.S) > 0 && op.K != "math" && op.K != "mathlatex" && op.K != "toc" {
			switch {
			case mode == 1 && textKinds[op.K]:
				res.Label("raw-text-append")
			case mode == 2 && textKinds[op.K]:
				op.S = append([]string{""}, op.S[1:]...)
			default:
				op.S = append([]string{fmt.Sprintf("%s#%d", op.S[0], i)}, op.S[1:]...)
			}
			if textKinds[op.K] && op.S[0] == "" {
				res.Label("empty-text-append")
				if op.K == "footnote" || op.K == "endnote" {
					res.Label("empty-text-note")
				}
				if len(model) > 0 {
					if _, ok := model[len(model)-1].(*document.Paragraph); ok {
						res.Label("empty-text-append-after-paragraph")
					}
				}
			}
		}
		sv := func(k int) string {
			if k < len(op.S) {
				return op.S[k]
			}
			return ""
		}
		iv := func(k int) int {
			if k < len(op.I) {
				return op.I[k]
			}
			return 0
		}
		fv := func(k int) float64 {
			if k < len(op.F) {
				return op.F[k]
			}
			return 0
		}
		var ret bool
		var err error // the error the call returned: the call was REJECTED
		var target interface{}
		expectRemove := -2 // -2: not a removal; -1: must fail; >=0: index to be removed
		var pan interface{}
		var st string
		switch op.K {
		case "rmhandle":
			var h *document.Paragraph
			paras := []*document.Paragraph{}
			for _, e := range model {
				if p, ok := e.(*document.Paragraph); ok {
					paras = append(paras, p)
				}
			}
			switch sv(0) {
			case "live":
				if len(paras) > 0 {
					h = paras[ops.In(iv(0), len(paras))]
				}
			case "removed":
				if len(removed) > 0 {
					h = removed[ops.In(iv(0), len(removed))]
				}
			case "foreign":
				h = foreign
			}
			expectRemove = -1
			if h != nil {
				if j := idx(model, h); j >= 0 {
					expectRemove = j
				}
			}
			target = h
			res.Label("rmhandle:" + sv(0))
			pan, st = kit.Try(func() { ret = doc.RemoveParagraph(h) })
		case "rmparaat":
			np := 0
			for _, e := range model {
				if _, ok := e.(*document.Paragraph); ok {
					np++
				}
			}
			k := ops.Sel(iv(0), np)
			expectRemove = -1
			cnt := 0
			for j, e := range model {
				if _, ok := e.(*document.Paragraph); ok {
					if cnt == k {
						expectRemove = j
					}
					cnt++
				}
			}
			if k < 0 || k >= np {
				res.Label("rm-out-of-range")
			}
			pan, st = kit.Try(func() { ret = doc.RemoveParagraphAt(k) })
		case "rmelemat":
			k := ops.Sel(iv(0), len(model))
			expectRemove = -1
			if k >= 0 && k < len(model) {
				expectRemove = k
			} else {
				res.Label("rm-out-of-range")
			}
			pan, st = kit.Try(func() { ret = doc.RemoveElementAt(k) })
		case "addelem":
			var e interface{}
			switch iv(0) {
			case 0:
				e = &document.Paragraph{Runs: []document.Run{{Text: document.Text{Content: fmt.Sprintf("added%d", i)}}}}
			case 1:
				t, _ := doc.CreateTable(&document.TableConfig{Rows: 1, Cols: 1, Width: 1000})
				e = t
			default:
				e = &document.SectionProperties{PageSize: &document.PageSizeXML{W: "11906", H: "16838"}}
				res.Label("addelem-sectPr")
			}
			target = e
			pan, st = kit.Try(func() { doc.Body.AddElement(e) })
		case "listitemnil":
			pan, st = kit.Try(func() { x.Paras = append(x.Paras, doc.AddListItem(sv(0), nil)) })
		case "pagesettings":
			var ps *document.PageSettings
			if len(op.B) == 0 || !op.B[0] {
				ps = &document.PageSettings{Size: pageSizeOf(sv(0)), CustomWidth: fv(0), CustomHeight: fv(1), Orientation: document.PageOrientation(sv(1)),
					MarginTop: fv(2), MarginRight: fv(3), MarginBottom: fv(4), MarginLeft: fv(5), HeaderDistance: fv(6), FooterDistance: fv(7), GutterWidth: fv(8),
					DocGridType: document.DocGridType(sv(2)), DocGridLinePitch: iv(0), DocGridCharSpace: iv(1)}
			}
			pan, st = kit.Try(func() { err = doc.SetPageSettings(ps) })
		case "orientraw":
			pan, st = kit.Try(func() { err = doc.SetPageOrientation(document.PageOrientation(sv(0))) })
		case "docgridraw":
			pan, st = kit.Try(func() { err = doc.SetDocGrid(document.DocGridType(sv(0)), iv(0), iv(1)) })
		default:
			pan, st = kit.Try(func() { err = x.Do(op) })
		}
		if pan != nil {
			res.Fail("C08.L0", "op %d %s panicked: %v [%s]", i, op.K, pan, st)
			return res
		}
		if err != nil {
			grp += "-err"
		}
		after := doc.Body.Elements
		shape = append(shape, op.K+":"+grp)
		switch {
		case err != nil:
			// L5: a rejected call is neither an append nor a removal: the list is as before, element for element
			// and content for content (section settings included)
			res.Eval("C08.L5")
			res.Label("rejected-call")
			if strings.HasPrefix(grp, "section") {
				res.Label("rejected-page-call")
				if !hasSect() {
					res.Label("rejected-page-call-before-any-sectPr")
				}
			}
			if !same(after, model) {
				// the convenience setters read the current settings through GetPageSettings, which creates the
				// section element: known (see findings.go). The run goes on past it while the finding is open.
				if leakKinds[op.K] && !hasSect() && len(after) == len(model)+1 && same(after[:len(model)], model) && isSect(after[len(model)]) {
					res.Fail("C08.L5", "op %d %s returned an error (%v) but appended section settings to the body (len %d -> %d) [setter-leak op=%d kind=%s]", i, op.K, err, len(model), len(after), i, op.K)
					if !openKF[kfSetterLeak] {
						return res
					}
					model = append(model, after[len(model)])
					fp = nil
					continue
				}
				res.Fail("C08.L5", "op %d %s returned an error (%v) but changed the body's element list (len %d -> %d)", i, op.K, err, len(model), len(after))
				return res
			}
			if k, ok := undisturbed(after, -1, false); !ok {
				res.Fail("C08.L5", "op %d %s returned an error (%v) but changed the content of element %d (%s)", i, op.K, err, k, describe(model[k]))
				return res
			}
		case tocKinds[op.K]:
			// AutoGenerateTOC / UpdateTOC that succeed: not judged here (C15); the model follows the document
			model = append([]interface{}(nil), after...)
			res.Count("toc-call-not-judged", 1)
		case grp == "remove":
			res.Eval("C08.L3")
			if expectRemove >= 0 {
				if !ret {
					res.Fail("C08.L3", "op %d %s: target exists at element index %d but the call reported failure", i, op.K, expectRemove)
					return res
				}
				want := append(append([]interface{}(nil), model[:expectRemove]...), model[expectRemove+1:]...)
				if !same(after, want) {
					res.Fail("C08.L3", "op %d %s reported success but did not remove exactly element %d (len %d -> %d)", i, op.K, expectRemove, len(model), len(after))
					return res
				}
				if k, ok := undisturbed(after, expectRemove, false); !ok {
					res.Fail("C08.L3", "op %d %s removed element %d and also changed the content of element %d (%s)", i, op.K, expectRemove, k, describe(model[k]))
					return res
				}
				if p, ok := model[expectRemove].(*document.Paragraph); ok {
					removed = append(removed, p)
				}
				model = want
				okRemovals++
				if appends >= 4 {
					res.Label("removal-after-4-appends")
				}
			} else {
				if ret {
					res.Fail("C08.L3", "op %d %s: target %v does not exist but the call reported success", i, op.K, target)
					return res
				}
				if !same(after, model) {
					res.Fail("C08.L3", "op %d %s reported failure but changed the body (len %d -> %d)", i, op.K, len(model), len(after))
					return res
				}
				if k, ok := undisturbed(after, -1, false); !ok {
					res.Fail("C08.L3", "op %d %s reported failure but changed the content of element %d (%s)", i, op.K, k, describe(model[k]))
					return res
				}
				failedRemovals++
			}
		case grp == "append":
			res.Eval("C08.L1")
			if len(after) < len(model) || !same(after[:len(model)], model) {
				res.Fail("C08.L1", "op %d %s disturbed the existing elements (len %d -> %d)", i, op.K, len(model), len(after))
				return res
			}
			// GenerateTOC is not one of the constructors the statement lists; what it may do to the headings it indexes is C15's
			if op.K != "toc" {
				if k, ok := undisturbed(after, -1, false); !ok {
					res.Fail("C08.L1", "op %d %s changed the content of element %d, which was already there (it now reads %q)", i, op.K, k, describe(model[k]))
					return res
				}
			}
			grown := after[len(model):]
			if len(grown) == 0 {
				res.Fail("C08.L1", "op %d %s succeeded but appended nothing", i, op.K)
				return res
			}
			for _, e := range grown {
				if idx(model, e) >= 0 {
					res.Fail("C08.L1", "op %d %s appended an element that is already in the body", i, op.K)
					return res
				}
				if isSect(e) && op.K != "addelem" {
					res.Fail("C08.L1", "op %d %s appended section settings", i, op.K)
					return res
				}
			}
			if target != nil && (len(grown) != 1 || grown[0] != target) {
				res.Fail("C08.L1", "op %d AddElement did not append exactly the given element", i)
				return res
			}
			appends++
			kindsSeen[op.K] = true
			if hasSect() {
				sectBeforeAppend = true
				sectMiddle = true
			}
			if len(grown) > 1 {
				res.Label("multi-element-append")
			}
			model = append(model, grown...)
		case grp == "section":
			res.Eval("C08.L1")
			if len(after) < len(model) || !same(after[:len(model)], model) {
				res.Fail("C08.L1", "op %d %s (page/header call) disturbed the existing elements", i, op.K)
				return res
			}
			if k, ok := undisturbed(after, -1, true); !ok {
				res.Fail("C08.L1", "op %d %s (page/header call) changed the content of element %d (%s)", i, op.K, k, describe(model[k]))
				return res
			}
			grown := after[len(model):]
			if len(grown) > 1 {
				res.Fail("C08.L1", "op %d %s appended %d elements", i, op.K, len(grown))
				return res
			}
			if len(grown) == 1 {
				if !isSect(grown[0]) {
					res.Fail("C08.L1", "op %d %s appended a %T", i, op.K, grown[0])
					return res
				}
				if hasSect() {
					res.Fail("C08.L1", "op %d %s created second section settings although the body already has them", i, op.K)
					return res
				}
			}
			model = append(model, grown...)
		default:
			if !same(after, model) {
				res.Fail("C08.L1", "op %d %s (not a body-structure call) changed the element list", i, op.K)
				return res
			}
		}
		// L2 accessors
		res.Eval("C08.L2")
		var wp []*document.Paragraph
		var wt []*document.Table
		for _, e := range model {
			switch v := e.(type) {
			case *document.Paragraph:
				wp = append(wp, v)
			case *document.Table:
				wt = append(wt, v)
			}
		}
		gp, gt := doc.Body.GetParagraphs(), doc.Body.GetTables()
		if len(gp) != len(wp) || len(gt) != len(wt) {
			res.Fail("C08.L2", "after op %d: GetParagraphs/GetTables return %d/%d, model has %d/%d", i, len(gp), len(gt), len(wp), len(wt))
			return res
		}
		for j := range gp {
			if gp[j] != wp[j] {
				res.Fail("C08.L2", "after op %d: GetParagraphs()[%d] is not the model's paragraph", i, j)
				return res
			}
		}
		for j := range gt {
			if gt[j] != wt[j] {
				res.Fail("C08.L2", "after op %d: GetTables()[%d] is not the model's table", i, j)
				return res
			}
		}
		// lists that hold several section elements are where the serialiser has to choose: while the list is in
		// that state the saved part is judged after every call
		nsect := 0
		for _, e := range model {
			if isSect(e) {
				nsect++
			}
		}
		if op.K == "save" || c.Saves == 1 || nsect > 1 {
			if !checkSave(res, doc, model, fmt.Sprintf("save after op %d (%s)", i, op.K)) {
				return res
			}
		}
		fp = nil
		if len(fpNow) == len(model) && (err != nil || grp == "remove" || grp == "append" || grp == "section") && !tocKinds[op.K] {
			fp = fpNow // judged calls: the list after the call has just been fingerprinted
		}
	}
	checkSave(res, doc, model, "final save")
	if sectMiddle {
		res.Label("sectPr-in-the-middle")
	}
	if failedRemovals > 0 {
		res.Label("failed-removal")
	}
	if c.Saves == 1 {
		res.Label("saved-after-every-call")
	}
	res.Nontrivial = okRemovals >= 1 && appends >= 4 && len(kindsSeen) >= 3 && sectBeforeAppend
	res.Shape = strings.Join(shape, "|")
	return res
}

package c08

import (
	"regexp"
	"strconv"

	"wzverif/internal/kit"
)

const kfSetterLeak = "KF-C08-rejected-setter-creates-sectpr"

// leakKinds are the convenience page setters whose argument can be rejected only AFTER they have read the current
// settings through GetPageSettings (which creates the section element when the body has none): SetCustomPageSize
// with a size outside 12.7..558.8 mm and SetPageOrientation with an unknown orientation.
var leakKinds = map[string]bool{"custompage": true, "orientraw": true}

var reLeak = regexp.MustCompile(`\[setter-leak op=(\d+) kind=(\w+)\]$`)

var findings = []kit.Finding[Case]{
	{ID: kfSetterLeak, Clause: "C08.L5",
		Desc: "SetCustomPageSize / SetPageOrientation that return an error (size out of range, unknown orientation) on a body without section settings still append an empty SectionProperties element: they read the current settings through GetPageSettings, whose lookup creates the element, before SetPageSettings validates",
		Trigger: func(c Case, f kit.Failure) bool {
			g := reLeak.FindStringSubmatch(f.Detail)
			if g == nil {
				return false
			}
			n, err := strconv.Atoi(g[1])
			return err == nil && n < len(c.Ops) && c.Ops[n].K == g[2] && leakKinds[g[2]]
		}},
}

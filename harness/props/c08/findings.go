package c08

import "wzverif/internal/kit"

var findings = []kit.Finding[Case]{}

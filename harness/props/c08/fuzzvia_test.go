package c08

import (
	"testing"

	"wzverif/internal/kit"
)

// FuzzC08: coverage-guided search over the generator and oracle of TestC08 (thorough tier; see internal/kit/fuzz.go).
func FuzzC08(f *testing.F) { kit.FuzzVia(f, TestC08) }

package c08

// Histories that start from an OPENED document written by another producer. The package is written here with
// string templates and archive/zip only (nothing of pkg/document): bodies with section breaks (a w:sectPr inside
// the w:pPr of a paragraph) plus the body-level w:sectPr, body-level bookmarks, block-level content controls and
// tables. The reference model of such a history starts as whatever element list document.OpenFromMemory made of
// the body (what the reader should make of it is C09's subject); from there on the same clauses apply.

import (
	"archive/zip"
	"bytes"
	"fmt"
	"strings"

	"pgregory.net/rapid"
)

// Blk is one child of w:body as written. K: p (paragraph) | psect (paragraph that ends a section: w:sectPr in
// its w:pPr; V selects the form of that sectPr) | tbl (V+1 rows of one cell... see xml) | bm (bookmarkStart,
// paragraph, bookmarkEnd at body level) | sdt (block-level content control holding one paragraph).
type Blk struct {
	K string `json:"k"`
	V int    `json:"v,omitempty"`
}

// Base describes the opened start document.
type Base struct {
	Blocks   []Blk `json:"blocks"`
	BodySect int   `json:"bodysect"` // 0: no body-level w:sectPr; 1: plain one; 2: one with w:cols and w:docGrid; 3: empty <w:sectPr/>
}

const (
	nsW      = "http://schemas.openxmlformats.org/wordprocessingml/2006/main"
	baseCT   = `<?xml version="1.0" encoding="UTF-8" standalone="yes"?><Types xmlns="http://schemas.openxmlformats.org/package/2006/content-types"><Default Extension="rels" ContentType="application/vnd.openxmlformats-package.relationships+xml"/><Default Extension="xml" ContentType="application/xml"/><Override PartName="/word/document.xml" ContentType="application/vnd.openxmlformats-officedocument.wordprocessingml.document.main+xml"/></Types>`
	baseRels = `<?xml version="1.0" encoding="UTF-8" standalone="yes"?><Relationships xmlns="http://schemas.openxmlformats.org/package/2006/relationships"><Relationship Id="rId1" Type="http://schemas.openxmlformats.org/officeDocument/2006/relationships/officeDocument" Target="word/document.xml"/></Relationships>`
	pgMar    = `<w:pgMar w:top="1440" w:right="1440" w:bottom="1440" w:left="1440" w:header="720" w:footer="720" w:gutter="0"/>`
)

func innerSect(v int) string {
	switch v % 4 {
	case 0:
		return `<w:sectPr><w:pgSz w:w="16838" w:h="11906" w:orient="landscape"/>` + pgMar + `</w:sectPr>`
	case 1:
		return `<w:sectPr><w:type w:val="continuous"/><w:pgSz w:w="11906" w:h="16838"/>` + pgMar + `<w:cols w:num="2" w:space="720"/></w:sectPr>`
	case 2:
		return `<w:sectPr><w:type w:val="nextPage"/><w:pgSz w:w="12240" w:h="15840"/>` + pgMar + `</w:sectPr>`
	}
	return `<w:sectPr/>`
}

func (b *Base) mainPart() string {
	var s strings.Builder
	s.WriteString(`<?xml version="1.0" encoding="UTF-8" standalone="yes"?><w:document xmlns:w="` + nsW + `"><w:body>`)
	for i, k := range b.Blocks {
		switch k.K {
		case "psect":
			fmt.Fprintf(&s, `<w:p><w:pPr>%s</w:pPr><w:r><w:t>o%d</w:t></w:r></w:p>`, innerSect(k.V), i)
		case "tbl":
			s.WriteString(`<w:tbl><w:tblPr><w:tblW w:w="0" w:type="auto"/></w:tblPr><w:tblGrid><w:gridCol w:w="3000"/></w:tblGrid>`)
			for r := 0; r <= k.V%3; r++ {
				fmt.Fprintf(&s, `<w:tr><w:tc><w:tcPr><w:tcW w:w="3000" w:type="dxa"/></w:tcPr><w:p><w:r><w:t>o%d.%d</w:t></w:r></w:p></w:tc></w:tr>`, i, r)
			}
			s.WriteString(`</w:tbl>`)
		case "bm":
			fmt.Fprintf(&s, `<w:bookmarkStart w:id="%d" w:name="ob%d"/><w:p><w:r><w:t>o%d</w:t></w:r></w:p><w:bookmarkEnd w:id="%d"/>`, 100+i, i, i, 100+i)
		case "sdt":
			fmt.Fprintf(&s, `<w:sdt><w:sdtPr><w:alias w:val="cc%d"/><w:tag w:val="t%d"/></w:sdtPr><w:sdtContent><w:p><w:r><w:t>o%d</w:t></w:r></w:p></w:sdtContent></w:sdt>`, i, i, i)
		default:
			if k.V%4 == 3 {
				s.WriteString(`<w:p/>`)
			} else {
				fmt.Fprintf(&s, `<w:p><w:r><w:t>o%d</w:t></w:r></w:p>`, i)
			}
		}
	}
	switch b.BodySect {
	case 1:
		s.WriteString(`<w:sectPr><w:pgSz w:w="11906" w:h="16838"/>` + pgMar + `</w:sectPr>`)
	case 2:
		s.WriteString(`<w:sectPr><w:pgSz w:w="11906" w:h="16838"/>` + pgMar + `<w:cols w:space="720"/><w:docGrid w:type="lines" w:linePitch="312"/></w:sectPr>`)
	case 3:
		s.WriteString(`<w:sectPr/>`)
	}
	s.WriteString(`</w:body></w:document>`)
	return s.String()
}

// written is the number of body children the description writes, section settings not counted.
func (b *Base) written() (content, innerSects int) {
	for _, k := range b.Blocks {
		switch k.K {
		case "bm":
			content += 3
		case "psect":
			content++
			innerSects++
		default:
			content++
		}
	}
	return
}

func (b *Base) docx() ([]byte, error) {
	var buf bytes.Buffer
	zw := zip.NewWriter(&buf)
	for _, e := range [][2]string{{"[Content_Types].xml", baseCT}, {"_rels/.rels", baseRels}, {"word/document.xml", b.mainPart()}} {
		f, err := zw.Create(e[0])
		if err != nil {
			return nil, err
		}
		if _, err := f.Write([]byte(e[1])); err != nil {
			return nil, err
		}
	}
	if err := zw.Close(); err != nil {
		return nil, err
	}
	return buf.Bytes(), nil
}

var blkKinds = []string{"p", "p", "p", "psect", "psect", "tbl", "bm", "sdt"}

func genBase(t *rapid.T) *Base {
	// 1-7 children as a rule; one start document in twelve is long (around 10, 16, 32, 64 children)
	lo, hi := 1, 7
	if rapid.IntRange(0, 11).Draw(t, "longbase") == 0 {
		lo = rapid.SampledFrom([]int{8, 9, 10, 15, 16, 17, 30, 31, 32, 33, 62, 63, 64, 65}).Draw(t, "nblocks")
		hi = lo + 2
	}
	b := &Base{BodySect: rapid.SampledFrom([]int{1, 1, 1, 2, 3, 0}).Draw(t, "bodysect")}
	b.Blocks = rapid.SliceOfN(rapid.Custom(func(t *rapid.T) Blk {
		return Blk{K: rapid.SampledFrom(blkKinds).Draw(t, "bk"), V: rapid.IntRange(0, 3).Draw(t, "bv")}
	}), lo, hi).Draw(t, "blocks")
	return b
}

package c08

import (
	"fmt"
	"os"
	"strings"
	"testing"

	"github.com/zerx-lab/wordZero/pkg/document"
	"pgregory.net/rapid"

	"wzverif/internal/canon"
	"wzverif/internal/gen"
	"wzverif/internal/kit"
	"wzverif/internal/opc"
	"wzverif/internal/ops"
)

func TestMain(m *testing.M) {
	document.SetGlobalLevel(document.LogLevelSilent)
	kit.TestMain(m, 2500, 20000)
}

// Step is one op of the body-editing history. Kinds beyond the shared ops:
// rmhandle (S[0]: live|removed|foreign|nil, I[0]: selector), addelem (I[0]: 0 paragraph, 1 table).
//
// Mode (parallel to Ops, absent = 0) says how the text argument of an append constructor is passed:
// 0 the drawn text followed by a per-op marker "#<i>" (never empty), 1 the drawn text as it is
// (may be empty or blank), 2 the empty string.
type Case struct {
	Ops  []ops.Op `json:"ops"`
	Mode []int    `json:"mode,omitempty"`
}

// textKinds are the append constructors whose first string argument is the text of the new element.
var textKinds = map[string]bool{"para": true, "fpara": true, "heading": true, "headingbm": true, "headingbm2": true,
	"listitem": true, "bullet": true, "numbered": true, "footnote": true, "endnote": true}

var appendKinds = []string{"para", "para", "fpara", "heading", "headingbm", "headingbm2", "pagebreak", "table", "image", "imagefile", "listitem", "bullet", "numbered",
	"footnote", "endnote", "math", "mathlatex", "toc", "addelem"}
var removeKinds = []string{"rmhandle", "rmhandle", "rmparaat", "rmparaat", "rmelemat", "rmelemat"}
var sectionKinds = []string{"pagesize", "custompage", "orient", "margins", "hfdist", "gutter", "docgrid", "cleargrid", "header", "footer", "headerpn", "fheader", "ffooter", "difffirst"}
var otherKinds = []string{"align", "addtext", "pstyle", "save", "celltext", "props"}

var cfg = &ops.Config{Classes: gen.Expressible, Weights: ops.DefaultWeights}

type step struct {
	Op   ops.Op
	Mode int
}

// genStep draws one call. Steps are drawn as elements of a rapid slice so that the shrinker can delete
// any of them (not only the trailing ones).
func genStep(t *rapid.T) step {
	var k string
	switch rapid.IntRange(0, 9).Draw(t, "grp") {
	case 0, 1, 2, 3, 4:
		k = rapid.SampledFrom(appendKinds).Draw(t, "ak")
	case 5, 6, 7:
		k = rapid.SampledFrom(removeKinds).Draw(t, "rk")
	case 8:
		k = rapid.SampledFrom(sectionKinds).Draw(t, "sk")
	default:
		k = rapid.SampledFrom(otherKinds).Draw(t, "ok")
	}
	mode := 0
	if textKinds[k] {
		mode = rapid.SampledFrom([]int{0, 0, 0, 1, 2}).Draw(t, "textmode")
	}
	switch k {
	case "rmhandle":
		return step{ops.Op{K: k, S: []string{rapid.SampledFrom([]string{"live", "live", "live", "removed", "foreign", "nil"}).Draw(t, "hk")}, I: []int{rapid.IntRange(0, 60).Draw(t, "sel")}}, mode}
	case "addelem":
		return step{ops.Op{K: k, I: []int{rapid.IntRange(0, 1).Draw(t, "ek")}}, mode}
	}
	return step{cfg.OpOf(t, k), mode}
}

func genCase(t *rapid.T) Case {
	// rapid's slices are short on average; a drawn lower bound keeps long histories as likely as short ones
	// (the shrinker lowers the bound first and then deletes steps)
	max := kit.Scale(40, 80)
	min := rapid.IntRange(1, max*3/4).Draw(t, "atleast")
	steps := rapid.SliceOfN(rapid.Custom(genStep), min, max).Draw(t, "steps")
	var c Case
	for _, s := range steps {
		c.Ops = append(c.Ops, s.Op)
		c.Mode = append(c.Mode, s.Mode)
	}
	return c
}

func same(a, b []interface{}) bool {
	if len(a) != len(b) {
		return false
	}
	for i := range a {
		if a[i] != b[i] {
			return false
		}
	}
	return true
}

func idx(s []interface{}, e interface{}) int {
	for i, x := range s {
		if x == e {
			return i
		}
	}
	return -1
}

func norm(s string) string {
	s = strings.ReplaceAll(s, "\r\n", "\n")
	return strings.ReplaceAll(s, "\r", "\n")
}

// describe renders an in-memory body element for comparison with the saved XML.
func describe(e interface{}) string {
	switch v := e.(type) {
	case *document.Paragraph:
		var b strings.Builder
		b.WriteString("p:")
		for _, r := range v.Runs {
			b.WriteString(norm(r.Text.Content))
			if r.Break != nil {
				b.WriteString("⏎")
			}
			if r.Drawing != nil {
				b.WriteString("▣")
			}
		}
		return b.String()
	case *document.Table:
		t := ""
		if len(v.Rows) > 0 && len(v.Rows[0].Cells) > 0 && len(v.Rows[0].Cells[0].Paragraphs) > 0 {
			for _, r := range v.Rows[0].Cells[0].Paragraphs[0].Runs {
				t += norm(r.Text.Content)
			}
		}
		return fmt.Sprintf("tbl:%d:%s", len(v.Rows), t)
	case *document.SectionProperties:
		return "sectPr"
	case *document.BookmarkStart:
		return "bookmarkStart:" + v.Name
	case *document.BookmarkEnd:
		return "bookmarkEnd:" + v.ID
	case *document.MathParagraph:
		return "mathp"
	case *document.SDT:
		return "sdt"
	}
	return fmt.Sprintf("unknown:%T", e)
}

func describeXML(n *canon.Node) string {
	switch {
	case n.Is(canon.W, "p"):
		if n.Kid(canon.M, "oMath") != nil || n.Kid(canon.M, "oMathPara") != nil {
			return "mathp"
		}
		var b strings.Builder
		b.WriteString("p:")
		for _, r := range n.KidsNamed(canon.W, "r") {
			for _, k := range r.Kids {
				switch {
				case k.Is(canon.W, "t"):
					b.WriteString(norm(k.Text))
				case k.Is(canon.W, "br"):
					b.WriteString("⏎")
				case k.Is(canon.W, "drawing"):
					b.WriteString("▣")
				}
			}
		}
		return b.String()
	case n.Is(canon.W, "tbl"):
		rows := n.KidsNamed(canon.W, "tr")
		t := ""
		if len(rows) > 0 {
			if tc := rows[0].Kid(canon.W, "tc"); tc != nil {
				if p := tc.Kid(canon.W, "p"); p != nil {
					for _, r := range p.KidsNamed(canon.W, "r") {
						for _, tt := range r.KidsNamed(canon.W, "t") {
							t += norm(tt.Text)
						}
					}
				}
			}
		}
		return fmt.Sprintf("tbl:%d:%s", len(rows), t)
	case n.Is(canon.W, "sectPr"):
		return "sectPr"
	case n.Is(canon.W, "bookmarkStart"):
		return "bookmarkStart:" + n.A(canon.W, "name")
	case n.Is(canon.W, "bookmarkEnd"):
		return "bookmarkEnd:" + n.A(canon.W, "id")
	case n.Is(canon.W, "sdt"):
		return "sdt"
	}
	return "unknown:" + n.Name()
}

func checkSave(res *kit.Result, doc *document.Document, model []interface{}, where string) {
	var b []byte
	var err error
	if p, st := kit.Try(func() { b, err = doc.ToBytes() }); p != nil {
		res.Fail("C08.L0", "%s: ToBytes panicked: %v [%s]", where, p, st)
		return
	}
	if err != nil {
		return
	}
	res.Eval("C08.L4")
	pkg, err := opc.Read(b)
	if err != nil {
		res.Fail("C08.L4", "%s: unreadable package: %v", where, err)
		return
	}
	root, err := canon.Parse(pkg.Parts["word/document.xml"])
	if err != nil {
		res.Fail("C08.L4", "%s: main part does not parse: %v", where, err)
		return
	}
	body := root.Kid(canon.W, "body")
	if body == nil {
		res.Fail("C08.L4", "%s: no w:body", where)
		return
	}
	var want []string
	nsect := 0
	for _, e := range model {
		if _, ok := e.(*document.SectionProperties); ok {
			nsect++
			continue
		}
		want = append(want, describe(e))
	}
	if nsect > 0 {
		want = append(want, "sectPr")
	}
	var got []string
	for _, k := range body.Kids {
		got = append(got, describeXML(k))
	}
	if len(want) != len(got) {
		res.Fail("C08.L4", "%s: w:body has %d children, the body model has %d (section settings counted once, last)\n got=%q\nwant=%q", where, len(got), len(want), got, want)
		return
	}
	for i := range want {
		if want[i] != got[i] {
			res.Fail("C08.L4", "%s: child %d of w:body is %q, expected %q", where, i, got[i], want[i])
			return
		}
	}
	if nsect > 1 {
		res.Label("several-sectPr-in-model")
	}
}

func run(c Case) *kit.Result {
	res := &kit.Result{}
	document.VerifResetGlobals()
	dir, _ := os.MkdirTemp(kit.Scratch, "c08-")
	defer os.RemoveAll(dir)
	x := ops.NewExec(dir)
	doc := x.Doc
	other := document.New()
	foreign := other.AddParagraph("foreign")
	var model []interface{}
	var removed []*document.Paragraph
	hasSect := func() bool {
		for _, e := range model {
			if _, ok := e.(*document.SectionProperties); ok {
				return true
			}
		}
		return false
	}
	appends, kindsSeen, okRemovals, failedRemovals, sectBeforeAppend, sectMiddle := 0, map[string]bool{}, 0, 0, false, false
	var shape []string
	var fp []uint64 // content fingerprints of the model's elements before the call (nil = to be taken)
	for i, op := range c.Ops {
		before := append([]interface{}(nil), doc.Body.Elements...)
		if !same(before, model) {
			res.Fail("C08.L1", "before op %d the body is not the model", i)
			return res
		}
		if fp == nil { // the previous call was allowed to change element content (or there was none)
			fp = fingers(model)
		}
		// undisturbed reports the first element of the model (other than skip / section settings when
		// exceptSect) whose content differs from what it was before the call (now = the list after the call, in which element skip is gone).
		var fpNow []uint64 // fingerprints of the list after the call, filled by undisturbed
		undisturbed := func(now []interface{}, skip int, exceptSect bool) (int, bool) {
			fpNow = make([]uint64, 0, len(now))
			j := 0
			for k := range model {
				if k == skip {
					continue
				}
				if j >= len(now) {
					break
				}
				f := finger(now[j])
				if _, isSect := model[k].(*document.SectionProperties); !(exceptSect && isSect) && f != fp[k] {
					return k, false
				}
				fpNow = append(fpNow, f)
				j++
			}
			for ; j < len(now); j++ {
				fpNow = append(fpNow, finger(now[j]))
			}
			return -1, true
		}
		mode := 0
		if i < len(c.Mode) {
			mode = c.Mode[i]
		}
		grp := "other"
		var ret bool
		var target interface{}
		expectRemove := -2 // -2: not a removal; -1: must fail; >=0: index to be removed
		var pan interface{}
		var st string
		switch op.K {
		case "rmhandle":
			grp = "remove"
			var h *document.Paragraph
			paras := []*document.Paragraph{}
			for _, e := range model {
				if p, ok := e.(*document.Paragraph); ok {
					paras = append(paras, p)
				}
			}
			switch op.S[0] {
			case "live":
				if len(paras) > 0 {
					h = paras[ops.In(op.I[0], len(paras))]
				}
			case "removed":
				if len(removed) > 0 {
					h = removed[ops.In(op.I[0], len(removed))]
				}
			case "foreign":
				h = foreign
			}
			expectRemove = -1
			if h != nil {
				if j := idx(model, h); j >= 0 {
					expectRemove = j
				}
			}
			target = h
			res.Label("rmhandle:" + op.S[0])
			pan, st = kit.Try(func() { ret = doc.RemoveParagraph(h) })
		case "rmparaat":
			grp = "remove"
			np := 0
			for _, e := range model {
				if _, ok := e.(*document.Paragraph); ok {
					np++
				}
			}
			k := ops.Sel(op.I[0], np)
			expectRemove = -1
			cnt := 0
			for j, e := range model {
				if _, ok := e.(*document.Paragraph); ok {
					if cnt == k {
						expectRemove = j
					}
					cnt++
				}
			}
			if k < 0 || k >= np {
				res.Label("rm-out-of-range")
			}
			pan, st = kit.Try(func() { ret = doc.RemoveParagraphAt(k) })
		case "rmelemat":
			grp = "remove"
			k := ops.Sel(op.I[0], len(model))
			expectRemove = -1
			if k >= 0 && k < len(model) {
				expectRemove = k
			} else {
				res.Label("rm-out-of-range")
			}
			pan, st = kit.Try(func() { ret = doc.RemoveElementAt(k) })
		case "addelem":
			grp = "append"
			var e interface{}
			if op.I[0] == 0 {
				e = &document.Paragraph{Runs: []document.Run{{Text: document.Text{Content: fmt.Sprintf("added%d", i)}}}}
			} else {
				t, _ := doc.CreateTable(&document.TableConfig{Rows: 1, Cols: 1, Width: 1000})
				e = t
			}
			target = e
			pan, st = kit.Try(func() { doc.Body.AddElement(e) })
		default:
			for _, k := range appendKinds {
				if k == op.K {
					grp = "append"
				}
			}
			for _, k := range sectionKinds {
				if k == op.K {
					grp = "section"
				}
			}
			// make paragraph texts distinguishable in the saved part
			// (mode 0); modes 1 and 2 pass the drawn text itself / the empty string to the text constructors
			if grp == "append" && len(op.S) > 0 && op.K != "math" && op.K != "mathlatex" && op.K != "toc" {
				switch {
				case mode == 1 && textKinds[op.K]:
					res.Label("raw-text-append")
				case mode == 2 && textKinds[op.K]:
					op.S = append([]string{""}, op.S[1:]...)
				default:
					op.S = append([]string{fmt.Sprintf("%s#%d", op.S[0], i)}, op.S[1:]...)
				}
				if textKinds[op.K] && op.S[0] == "" {
					res.Label("empty-text-append")
					if op.K == "footnote" || op.K == "endnote" {
						res.Label("empty-text-note")
					}
					if len(model) > 0 {
						if _, ok := model[len(model)-1].(*document.Paragraph); ok {
							res.Label("empty-text-append-after-paragraph")
						}
					}
				}
			}
			var err error
			pan, st = kit.Try(func() { err = x.Do(op) })
			if err != nil {
				grp += "-err"
			}
		}
		if pan != nil {
			res.Fail("C08.L0", "op %d %s panicked: %v [%s]", i, op.K, pan, st)
			return res
		}
		after := doc.Body.Elements
		shape = append(shape, op.K+":"+grp)
		switch {
		case grp == "remove":
			res.Eval("C08.L3")
			if expectRemove >= 0 {
				if !ret {
					res.Fail("C08.L3", "op %d %s: target exists at element index %d but the call reported failure", i, op.K, expectRemove)
					return res
				}
				want := append(append([]interface{}(nil), model[:expectRemove]...), model[expectRemove+1:]...)
				if !same(after, want) {
					res.Fail("C08.L3", "op %d %s reported success but did not remove exactly element %d (len %d -> %d)", i, op.K, expectRemove, len(model), len(after))
					return res
				}
				if k, ok := undisturbed(after, expectRemove, false); !ok {
					res.Fail("C08.L3", "op %d %s removed element %d and also changed the content of element %d (%s)", i, op.K, expectRemove, k, describe(model[k]))
					return res
				}
				if p, ok := model[expectRemove].(*document.Paragraph); ok {
					removed = append(removed, p)
				}
				model = want
				okRemovals++
				if appends >= 4 {
					res.Label("removal-after-4-appends")
				}
			} else {
				if ret {
					res.Fail("C08.L3", "op %d %s: target %v does not exist but the call reported success", i, op.K, target)
					return res
				}
				if !same(after, model) {
					res.Fail("C08.L3", "op %d %s reported failure but changed the body (len %d -> %d)", i, op.K, len(model), len(after))
					return res
				}
				if k, ok := undisturbed(after, -1, false); !ok {
					res.Fail("C08.L3", "op %d %s reported failure but changed the content of element %d (%s)", i, op.K, k, describe(model[k]))
					return res
				}
				failedRemovals++
			}
		case strings.HasPrefix(grp, "append"):
			res.Eval("C08.L1")
			if len(after) < len(model) || !same(after[:len(model)], model) {
				res.Fail("C08.L1", "op %d %s disturbed the existing elements (len %d -> %d)", i, op.K, len(model), len(after))
				return res
			}
			// GenerateTOC is not one of the constructors the statement lists; what it may do to the headings it indexes is C15's
			if op.K != "toc" {
				if k, ok := undisturbed(after, -1, false); !ok {
					res.Fail("C08.L1", "op %d %s changed the content of element %d, which was already there (it now reads %q)", i, op.K, k, describe(model[k]))
					return res
				}
			}
			grown := after[len(model):]
			if grp == "append" && len(grown) == 0 {
				res.Fail("C08.L1", "op %d %s succeeded but appended nothing", i, op.K)
				return res
			}
			for _, e := range grown {
				if idx(model, e) >= 0 {
					res.Fail("C08.L1", "op %d %s appended an element that is already in the body", i, op.K)
					return res
				}
				if _, ok := e.(*document.SectionProperties); ok && op.K != "addelem" {
					res.Fail("C08.L1", "op %d %s appended section settings", i, op.K)
					return res
				}
			}
			if target != nil && (len(grown) != 1 || grown[0] != target) {
				res.Fail("C08.L1", "op %d AddElement did not append exactly the given element", i)
				return res
			}
			if len(grown) > 0 {
				appends++
				kindsSeen[op.K] = true
				if hasSect() {
					sectBeforeAppend = true
					sectMiddle = true
				}
				if len(grown) > 1 {
					res.Label("multi-element-append")
				}
			}
			model = append(model, grown...)
		case strings.HasPrefix(grp, "section"):
			res.Eval("C08.L1")
			if len(after) < len(model) || !same(after[:len(model)], model) {
				res.Fail("C08.L1", "op %d %s (page/header call) disturbed the existing elements", i, op.K)
				return res
			}
			if k, ok := undisturbed(after, -1, true); !ok {
				res.Fail("C08.L1", "op %d %s (page/header call) changed the content of element %d (%s)", i, op.K, k, describe(model[k]))
				return res
			}
			grown := after[len(model):]
			if len(grown) > 1 {
				res.Fail("C08.L1", "op %d %s appended %d elements", i, op.K, len(grown))
				return res
			}
			if len(grown) == 1 {
				if _, ok := grown[0].(*document.SectionProperties); !ok {
					res.Fail("C08.L1", "op %d %s appended a %T", i, op.K, grown[0])
					return res
				}
				if hasSect() {
					res.Fail("C08.L1", "op %d %s created second section settings although the body already has them", i, op.K)
					return res
				}
			}
			model = append(model, grown...)
		default:
			if !same(after, model) {
				res.Fail("C08.L1", "op %d %s (not a body-structure call) changed the element list", i, op.K)
				return res
			}
		}
		// L2 accessors
		res.Eval("C08.L2")
		var wp []*document.Paragraph
		var wt []*document.Table
		for _, e := range model {
			switch v := e.(type) {
			case *document.Paragraph:
				wp = append(wp, v)
			case *document.Table:
				wt = append(wt, v)
			}
		}
		gp, gt := doc.Body.GetParagraphs(), doc.Body.GetTables()
		if len(gp) != len(wp) || len(gt) != len(wt) {
			res.Fail("C08.L2", "after op %d: GetParagraphs/GetTables return %d/%d, model has %d/%d", i, len(gp), len(gt), len(wp), len(wt))
			return res
		}
		for j := range gp {
			if gp[j] != wp[j] {
				res.Fail("C08.L2", "after op %d: GetParagraphs()[%d] is not the model's paragraph", i, j)
				return res
			}
		}
		for j := range gt {
			if gt[j] != wt[j] {
				res.Fail("C08.L2", "after op %d: GetTables()[%d] is not the model's table", i, j)
				return res
			}
		}
		if op.K == "save" {
			checkSave(res, doc, model, fmt.Sprintf("save at op %d", i))
		}
		fp = nil
		if len(fpNow) == len(model) && (grp == "remove" || strings.HasPrefix(grp, "append") || strings.HasPrefix(grp, "section")) {
			fp = fpNow // judged calls: the list after the call has just been fingerprinted
		}
	}
	checkSave(res, doc, model, "final save")
	if sectMiddle {
		res.Label("sectPr-in-the-middle")
	}
	if failedRemovals > 0 {
		res.Label("failed-removal")
	}
	res.Nontrivial = okRemovals >= 1 && appends >= 4 && len(kindsSeen) >= 3 && sectBeforeAppend
	res.Shape = strings.Join(shape, "|")
	return res
}

func TestC08(t *testing.T) {
	kit.Main(t, kit.Spec[Case]{
		ID: "C08", Level: "exploration",
		Rule: "history of 1-40 (thorough 1-80) body-editing calls: every append constructor (text-taking ones with the drawn text plus a per-call marker, the drawn text as it is, or the empty string), removals by handle (live, already removed, foreign, nil) / paragraph index / element index with selectors covering -1, every valid index, n, n+1, and page-setting/header/footer calls that create section settings at arbitrary points; reference model = slice of element identities compared pointer-for-pointer after every call, a content fingerprint of every element already there compared across every append, removal and page/header call, plus the child order of w:body at drawn saves and at the end. non-trivial = >=1 successful removal after >=4 appends of >=3 kinds with section settings created before the last append; distinct = distinct sequence of (op kind, outcome group)",
		Gen:  genCase, Run: run, Findings: findings,
		MustSee: map[string]float64{"rm-out-of-range": 0.3, "rmhandle:removed": 0.1, "rmhandle:foreign": 0.1, "sectPr-in-the-middle": 0.2, "multi-element-append": 0.2, "failed-removal": 0.3,
			"empty-text-append": 0.3, "empty-text-append-after-paragraph": 0.2, "empty-text-note": 0.05, "raw-text-append": 0.3},
		Assumptions: []string{"AutoGenerateTOC (prepends by design) and UpdateTOC are not append operations and are judged under C15",
			"3 of 5 text-taking appends carry a per-op marker so that the saved children can be matched to model elements, the others pass the drawn text unchanged or the empty string; text is drawn from XML-expressible classes",
			"GenerateTOC is not among the constructors the statement lists: the content-fingerprint clause does not apply to it (the list clauses do)"},
	})
}

package c08

import (
	"fmt"
	"strings"
	"testing"

	"github.com/zerx-lab/wordZero/pkg/document"
	"pgregory.net/rapid"

	"wzverif/internal/canon"
	"wzverif/internal/gen"
	"wzverif/internal/kit"
	"wzverif/internal/opc"
	"wzverif/internal/ops"
)

func TestMain(m *testing.M) {
	document.SetGlobalLevel(document.LogLevelSilent)
	kit.TestMain(m, 2000, 20000)
}

// Step is one op of the body-editing history. Kinds beyond the shared ops:
// rmhandle (S[0]: live|removed|foreign|nil, I[0]: selector), addelem (I[0]: 0 paragraph, 1 table).
//
// Mode (parallel to Ops, absent = 0) says how the text argument of an append constructor is passed:
// 0 the drawn text followed by a per-op marker "#<i>" (never empty), 1 the drawn text as it is
// (may be empty or blank), 2 the empty string.
//
// Kinds of this check that call the API directly (they are the calls that can be REJECTED with arguments the shared
// generator never draws): pagesettings (SetPageSettings with a struct: S[0] size name, S[1] orientation as passed,
// S[2] grid type, F[0..8] custom width/height, four margins, header/footer distance, gutter, I[0..1] grid pitch /
// char space, B[0]: pass nil), orientraw (SetPageOrientation(S[0])), docgridraw (SetDocGrid(S[0], I[0], I[1])),
// listitemnil (AddListItem(text, nil)); addelem I[0]==2 hands a SectionProperties element to Body.AddElement.
//
// Base (absent = document.New()) describes a package written by another producer that the history starts from
// (opened with OpenFromMemory). Saves==1: the saved main part is judged after every call, not only at the drawn
// save calls and at the end.
//
// On (parallel to Ops, absent = 0) names the document the call goes to: a history may edit up to three documents of
// one process alternately. Document 0 is the start document; documents 1 and 2 are created (document.New(), or with
// PeerOpen and a Base: opened from the same package as document 0) when the first call addresses them. Each has
// its own reference model; after every call every OTHER live document must be exactly as it was.
// Rep (parallel to Ops, absent = 1) repeats the call: each repetition is judged as a call of its own (bodies
// that grow past 16/32/64 elements, runs of removals).
// rmhandle kinds beyond live|removed|foreign|nil: peer (a paragraph that is in the body of another live document of
// the history), copy (a copy of a paragraph of this body: equal content, different object).
type Case struct {
	Ops      []ops.Op `json:"ops"`
	Mode     []int    `json:"mode,omitempty"`
	On       []int    `json:"on,omitempty"`
	Rep      []int    `json:"rep,omitempty"`
	Base     *Base    `json:"base,omitempty"`
	PeerOpen bool     `json:"peeropen,omitempty"`
	Saves    int      `json:"saves,omitempty"`
}

// textKinds are the append constructors whose first string argument is the text of the new element.
var textKinds = map[string]bool{"para": true, "fpara": true, "heading": true, "headingbm": true, "headingbm2": true,
	"listitem": true, "listitemnil": true, "bullet": true, "numbered": true, "footnote": true, "endnote": true}

var appendKinds = []string{"para", "para", "fpara", "heading", "headingbm", "headingbm2", "pagebreak", "table", "image", "imagefile", "listitem", "bullet", "numbered",
	"footnote", "endnote", "math", "mathlatex", "toc", "addelem", "addelem", "listitemnil"}
var removeKinds = []string{"rmhandle", "rmhandle", "rmparaat", "rmparaat", "rmelemat", "rmelemat"}
var sectionKinds = []string{"pagesize", "custompage", "custompage", "orient", "margins", "hfdist", "gutter", "docgrid", "cleargrid", "header", "footer", "headerpn", "fheader", "ffooter", "difffirst",
	"pagesettings", "pagesettings", "pagesettings", "orientraw", "docgridraw"}
var otherKinds = []string{"align", "addtext", "pstyle", "save", "save", "celltext", "props", "autotoc", "updatetoc"}

// tocKinds are not body-editing calls of this property (C15 judges what they do when they succeed); here they are
// only held to the clause for REJECTED calls.
var tocKinds = map[string]bool{"autotoc": true, "updatetoc": true}

var kindGroup = func() map[string]string {
	m := map[string]string{}
	for _, k := range appendKinds {
		m[k] = "append"
	}
	for _, k := range sectionKinds {
		m[k] = "section"
	}
	for _, k := range removeKinds {
		m[k] = "remove"
	}
	return m
}()

// page dimensions / distances (mm) around the documented limits (custom sizes 12.7 .. 558.8 mm, nothing negative)
var dims = []float64{0, -1, 5, 12.7, 100, 210, 297, 558.8, 600, 1000}
var sizeNames = []string{"A4", "Letter", "Legal", "A3", "A5", "Custom", "Custom", "Custom"}
var orientNames = []string{"portrait", "portrait", "landscape", "landscape", "diagonal", ""}

func pageSizeOf(name string) document.PageSize {
	for i, n := range sizeNames[:5] {
		if n == name {
			return ops.PageSizes[i]
		}
	}
	return document.PageSizeCustom
}

var cfg = &ops.Config{Classes: gen.Expressible, Weights: ops.DefaultWeights}

type step struct {
	Op   ops.Op
	Mode int
	On   int
	Rep  int
}

// sizes around the thresholds where a list implementation changes behaviour (9/10/11 items, powers of two)
var repCounts = []int{2, 3, 8, 9, 10, 11, 15, 16, 17, 31, 32, 33, 34, 40, 63, 64, 65, 70}

// genStep draws one call. Steps are drawn as elements of a rapid slice so that the shrinker can delete
// any of them (not only the trailing ones).
func genStep1(t *rapid.T) step {
	var k string
	switch rapid.IntRange(0, 9).Draw(t, "grp") {
	case 0, 1, 2, 3, 4:
		k = rapid.SampledFrom(appendKinds).Draw(t, "ak")
	case 5, 6, 7:
		k = rapid.SampledFrom(removeKinds).Draw(t, "rk")
	case 8:
		k = rapid.SampledFrom(sectionKinds).Draw(t, "sk")
	default:
		k = rapid.SampledFrom(otherKinds).Draw(t, "ok")
	}
	mode := 0
	if textKinds[k] {
		mode = rapid.SampledFrom([]int{0, 0, 0, 1, 2}).Draw(t, "textmode")
	}
	switch k {
	case "rmhandle":
		return step{Op: ops.Op{K: k, S: []string{rapid.SampledFrom([]string{"live", "live", "live", "live", "removed", "foreign", "nil", "peer", "copy"}).Draw(t, "hk")}, I: []int{rapid.IntRange(0, 400).Draw(t, "sel")}}, Mode: mode}
	case "rmparaat", "rmelemat":
		// the selector reaches -1, every index, n and n+1 of bodies of up to ~400 elements (ops.Sel)
		return step{Op: ops.Op{K: k, I: []int{rapid.IntRange(0, 400).Draw(t, "sel")}}, Mode: mode}
	case "addelem":
		return step{Op: ops.Op{K: k, I: []int{rapid.SampledFrom([]int{0, 1, 2, 2}).Draw(t, "ek")}}, Mode: mode}
	case "listitemnil":
		o := cfg.OpOf(t, "para")
		o.K = k
		return step{Op: o, Mode: mode}
	case "pagesettings":
		d := func(l string) float64 { return rapid.SampledFrom(dims).Draw(t, l) }
		m := func(l string) float64 { return rapid.SampledFrom([]float64{25.4, 25.4, 0, 10, -1}).Draw(t, l) }
		return step{Op: ops.Op{K: k,
			S: []string{rapid.SampledFrom(sizeNames).Draw(t, "size"), rapid.SampledFrom(orientNames).Draw(t, "orient"), rapid.SampledFrom([]string{"", "lines", "default"}).Draw(t, "grid")},
			F: []float64{d("cw"), d("ch"), m("mt"), m("mr"), m("mb"), m("ml"), m("hd"), m("fd"), m("gut")},
			I: []int{rapid.IntRange(0, 600).Draw(t, "lp"), rapid.IntRange(0, 50).Draw(t, "cs")},
			B: []bool{rapid.IntRange(0, 9).Draw(t, "nilps") == 0}}, Mode: mode}
	case "custompage":
		if rapid.Bool().Draw(t, "limits") {
			return step{Op: ops.Op{K: k, F: []float64{rapid.SampledFrom(dims).Draw(t, "cw"), rapid.SampledFrom(dims).Draw(t, "ch")}}, Mode: mode}
		}
	case "orientraw":
		return step{Op: ops.Op{K: k, S: []string{rapid.SampledFrom(orientNames).Draw(t, "orient")}}, Mode: mode}
	case "docgridraw":
		return step{Op: ops.Op{K: k, S: []string{rapid.SampledFrom([]string{"", "", "lines", "default", "linesAndChars"}).Draw(t, "grid")},
			I: []int{rapid.IntRange(-1, 600).Draw(t, "lp"), rapid.IntRange(-1, 50).Draw(t, "cs")}}, Mode: mode}
	}
	return step{Op: cfg.OpOf(t, k), Mode: mode}
}

// genStepFor draws one call of a history over ndocs documents; with bulk, an append or removal may be repeated.
func genStepFor(ndocs int, bulk bool) func(t *rapid.T) step {
	return func(t *rapid.T) step {
		s := genStep1(t)
		if ndocs > 1 {
			s.On = rapid.IntRange(0, ndocs-1).Draw(t, "on")
		}
		if g := kindGroup[s.Op.K]; bulk && (g == "append" || g == "remove") && rapid.IntRange(0, 5).Draw(t, "rep?") == 0 {
			s.Rep = rapid.SampledFrom(repCounts).Draw(t, "rep")
		}
		return s
	}
}

func genCase(t *rapid.T) Case {
	// rapid's slices are short on average; a drawn lower bound keeps long histories as likely as short ones
	// (the shrinker lowers the bound first and then deletes steps)
	var c Case
	if rapid.IntRange(0, 2).Draw(t, "opened") == 2 {
		c.Base = genBase(t)
	}
	if rapid.IntRange(0, 13).Draw(t, "saves") == 13 {
		c.Saves = 1
	}
	// one history in three edits two or three documents of the process alternately
	ndocs := rapid.SampledFrom([]int{1, 1, 1, 1, 2, 2, 3}).Draw(t, "ndocs")
	if ndocs > 1 && c.Base != nil {
		c.PeerOpen = rapid.Bool().Draw(t, "peeropen")
	}
	// one history in twelve has repeated calls (bodies of more than 16/32/64 elements)
	bulk := rapid.IntRange(0, 11).Draw(t, "bulk") == 0
	max := kit.Scale(40, 80)
	min := rapid.IntRange(1, max*3/4).Draw(t, "atleast")
	if bulk {
		max /= 2 // (the repetitions make the history long)
		if min > max {
			min = max
		}
	}
	steps := rapid.SliceOfN(rapid.Custom(genStepFor(ndocs, bulk)), min, max).Draw(t, "steps")
	on, rep := false, false
	for _, s := range steps {
		c.Ops = append(c.Ops, s.Op)
		c.Mode = append(c.Mode, s.Mode)
		c.On = append(c.On, s.On)
		c.Rep = append(c.Rep, s.Rep)
		on = on || s.On != 0
		rep = rep || s.Rep > 1
	}
	if !on {
		c.On = nil
	}
	if !rep {
		c.Rep = nil
	}
	return c
}

func same(a, b []interface{}) bool {
	if len(a) != len(b) {
		return false
	}
	for i := range a {
		if a[i] != b[i] {
			return false
		}
	}
	return true
}

func idx(s []interface{}, e interface{}) int {
	for i, x := range s {
		if x == e {
			return i
		}
	}
	return -1
}

func norm(s string) string {
	s = strings.ReplaceAll(s, "\r\n", "\n")
	return strings.ReplaceAll(s, "\r", "\n")
}

// describe renders an in-memory body element for comparison with the saved XML.
func describe(e interface{}) string {
	switch v := e.(type) {
	case *document.Paragraph:
		var b strings.Builder
		b.WriteString("p:")
		for _, r := range v.Runs {
			b.WriteString(norm(r.Text.Content))
			if r.Break != nil {
				b.WriteString("⏎")
			}
			if r.Drawing != nil {
				b.WriteString("▣")
			}
		}
		return b.String()
	case *document.Table:
		t := ""
		if len(v.Rows) > 0 && len(v.Rows[0].Cells) > 0 && len(v.Rows[0].Cells[0].Paragraphs) > 0 {
			for _, r := range v.Rows[0].Cells[0].Paragraphs[0].Runs {
				t += norm(r.Text.Content)
			}
		}
		return fmt.Sprintf("tbl:%d:%s", len(v.Rows), t)
	case *document.SectionProperties:
		return "sectPr"
	case *document.BookmarkStart:
		return "bookmarkStart:" + v.Name
	case *document.BookmarkEnd:
		return "bookmarkEnd:" + v.ID
	case *document.MathParagraph:
		return "mathp"
	case *document.SDT:
		return "sdt"
	}
	return fmt.Sprintf("unknown:%T", e)
}

func describeXML(n *canon.Node) string {
	switch {
	case n.Is(canon.W, "p"):
		if n.Kid(canon.M, "oMath") != nil || n.Kid(canon.M, "oMathPara") != nil {
			return "mathp"
		}
		var b strings.Builder
		b.WriteString("p:")
		for _, r := range n.KidsNamed(canon.W, "r") {
			for _, k := range r.Kids {
				switch {
				case k.Is(canon.W, "t"):
					b.WriteString(norm(k.Text))
				case k.Is(canon.W, "br"):
					b.WriteString("⏎")
				case k.Is(canon.W, "drawing"):
					b.WriteString("▣")
				}
			}
		}
		return b.String()
	case n.Is(canon.W, "tbl"):
		rows := n.KidsNamed(canon.W, "tr")
		t := ""
		if len(rows) > 0 {
			if tc := rows[0].Kid(canon.W, "tc"); tc != nil {
				if p := tc.Kid(canon.W, "p"); p != nil {
					for _, r := range p.KidsNamed(canon.W, "r") {
						for _, tt := range r.KidsNamed(canon.W, "t") {
							t += norm(tt.Text)
						}
					}
				}
			}
		}
		return fmt.Sprintf("tbl:%d:%s", len(rows), t)
	case n.Is(canon.W, "sectPr"):
		return "sectPr"
	case n.Is(canon.W, "bookmarkStart"):
		return "bookmarkStart:" + n.A(canon.W, "name")
	case n.Is(canon.W, "bookmarkEnd"):
		return "bookmarkEnd:" + n.A(canon.W, "id")
	case n.Is(canon.W, "sdt"):
		return "sdt"
	}
	return "unknown:" + n.Name()
}

// checkSave judges L4 on the document as it is now; it reports whether the clause held (or could not be judged:
// the save itself was refused).
func checkSave(res *kit.Result, doc *document.Document, model []interface{}, where string) bool {
	n0 := len(res.Failures)
	checkSave1(res, doc, model, where)
	return len(res.Failures) == n0
}

func checkSave1(res *kit.Result, doc *document.Document, model []interface{}, where string) {
	var b []byte
	var err error
	if p, st := kit.Try(func() { b, err = doc.ToBytes() }); p != nil {
		res.Fail("C08.L0", "%s: ToBytes panicked: %v [%s]", where, p, st)
		return
	}
	if err != nil {
		res.Count("save-refused", 1)
		return
	}
	// saving is not an edit: the list is the model before and after (a later call would see the difference
	// anyway; said here it is attributed to the save and not to the next call)
	if !same(doc.Body.Elements, model) {
		res.Fail("C08.L1", "%s: saving changed the body's element list (model %d elements, body now %d)", where, len(model), len(doc.Body.Elements))
		return
	}
	res.Eval("C08.L4")
	res.Count("saved-parts-judged", 1)
	if strings.HasPrefix(where, "final") {
		res.Count("saved-parts-judged:final", 1)
	}
	pkg, err := opc.Read(b)
	if err != nil {
		res.Fail("C08.L4", "%s: unreadable package: %v", where, err)
		return
	}
	root, err := canon.Parse(pkg.Parts["word/document.xml"])
	if err != nil {
		res.Fail("C08.L4", "%s: main part does not parse: %v", where, err)
		return
	}
	body := root.Kid(canon.W, "body")
	if body == nil {
		res.Fail("C08.L4", "%s: no w:body", where)
		return
	}
	var want []string
	nsect := 0
	for _, e := range model {
		if _, ok := e.(*document.SectionProperties); ok {
			nsect++
			continue
		}
		want = append(want, describe(e))
	}
	if nsect > 0 {
		want = append(want, "sectPr")
	}
	var got []string
	for _, k := range body.Kids {
		got = append(got, describeXML(k))
	}
	if len(want) != len(got) {
		res.Fail("C08.L4", "%s: w:body has %d children, the body model has %d (section settings counted once, last)\n got=%q\nwant=%q", where, len(got), len(want), got, want)
		return
	}
	for i := range want {
		if want[i] != got[i] {
			res.Fail("C08.L4", "%s: child %d of w:body is %q, expected %q", where, i, got[i], want[i])
			return
		}
	}
	if nsect > 1 {
		res.Label("several-sectPr-in-model")
		if _, ok := model[len(model)-1].(*document.SectionProperties); ok {
			res.Label("saved-with-sectPr-last-and-another-earlier")
		}
	}
}

func TestC08(t *testing.T) {
	kit.Main(t, kit.Spec[Case]{
		ID: "C08", Level: "exploration",
		Rule: "history of 1-40 (thorough 1-80) body-editing calls on a new document or (1 in 3) on a document OPENED from a package written by the harness with string templates (1-7 body children: paragraphs, paragraphs that end a section (w:sectPr inside w:pPr), tables, body-level bookmarks, content controls; body-level w:sectPr in four forms or absent): every append constructor (text-taking ones with the drawn text plus a per-call marker, the drawn text as it is, or the empty string; AddListItem also with a nil config; Body.AddElement with a paragraph, a table or a section element), removals by handle (live, already removed, foreign, nil) / paragraph index / element index with selectors covering -1, every valid index, n, n+1, and page-setting/header/footer calls that create section settings at arbitrary points, among them calls with arguments the API rejects (SetPageSettings with nil / custom sizes at and beyond the limits / unknown orientation, SetCustomPageSize and the distance setters with values at and beyond the limits, SetPageOrientation with unknown values, SetDocGrid without a type, AddTable without rows/columns, cell edits outside the table, AutoGenerateTOC/UpdateTOC without headings/TOC); reference model = slice of element identities compared pointer-for-pointer after every call, a content fingerprint of every element already there compared across every append, removal, page/header call and every REJECTED call (error returned => list and contents as before), the list of an opened start held to the children of w:body as written (same elements in the same order, body-level section settings last), plus the child order of w:body at drawn saves, at the end, right after opening, after every call while the list holds more than one section element, and (1 case in 8) after every call. one history in three edits two or three documents of the process ALTERNATELY (each call names its document; documents 1 and 2 are created - document.New(), or opened from the same package as document 0 - when the first call addresses them, i.e. while the others already have content), each with its own model; after every call every other live document (also the never-edited one that supplies foreign handles) must hold the same elements with the same contents; handle removals also get a paragraph of another live document of the history and a COPY of a live paragraph (equal content, other object); one history in twelve repeats appends/removals 2-70 times (bodies past 16/32/64 elements; index selectors reach every index, n and n+1 of such bodies) and one opened start in twelve has 8-67 children; saving must leave the list as it is. non-trivial = in one document >=1 successful removal after >=4 appends of >=3 kinds with section settings present before the last append; distinct = distinct sequence of (op kind, outcome group) and start document",
		Gen:  genCase, Run: run, Findings: findings, Fixed: fixedCases,
		MustSee: map[string]float64{"rm-out-of-range": 0.3, "rmhandle:removed": 0.1, "rmhandle:foreign": 0.1, "sectPr-in-the-middle": 0.2, "multi-element-append": 0.2, "failed-removal": 0.3,
			"empty-text-append": 0.3, "empty-text-append-after-paragraph": 0.2, "empty-text-note": 0.05, "raw-text-append": 0.3,
			"rejected-call": 0.3, "rejected-page-call": 0.15, "rejected-page-call-before-any-sectPr": 0.05, "opened-base": 0.2, "opened-with-inner-sectPr": 0.08,
			"several-sectPr-in-model": 0.1, "saved-with-sectPr-last-and-another-earlier": 0.08, "saved-after-every-call": 0.03, "addelem-sectPr": 0.1,
			"several-documents": 0.2, "documents-edited-alternately": 0.15, "document-created-while-another-has-content": 0.1, "peer-opened-from-the-same-package": 0.02,
			"rmhandle:peer": 0.05, "rmhandle:copy-of-one-of-several": 0.04, "repeated-call": 0.04, "body-over-16-elements": 0.1, "body-over-32-elements": 0.03, "body-over-64-elements": 0.015,
			"opened-with-over-16-elements": 0.008, "opened-with-body-level-sectPr": 0.1, "opened-section-break-and-body-level-sectPr": 0.06},
		Assumptions: []string{"documents of one process are independent bodies: a call on one document is neither an append to nor a removal from another live document and does not disturb the elements already there (the statement's clauses read per body; no element object is ever handed to two documents by the generator)",
			"a copy of a paragraph object (same content, different pointer) is a paragraph that does not exist in the body (RemoveParagraph is documented to remove 'the given paragraph object'): removing it must fail",
			"AutoGenerateTOC (prepends by design) and UpdateTOC are not append operations and are judged under C15; here they are only held to the clause for rejected calls (error => body unchanged), after a successful one the model is re-read from the document",
			"3 of 5 text-taking appends carry a per-op marker so that the saved children can be matched to model elements, the others pass the drawn text unchanged or the empty string; text is drawn from XML-expressible classes",
			"GenerateTOC is not among the constructors the statement lists: the content-fingerprint clause does not apply to it (the list clauses do)",
			"L5 (a call that returns an error leaves the element list and every element's content as they were) generalises the statement's 'reports failure without changing anything' from removals to every rejecting call: a rejected call is neither an append nor a removal",
			"for a history that starts from an opened document the model starts as the element list OpenFromMemory delivered, and L6 holds that list to the package it was read from: element and paragraph indices of an opened body designate the children of w:body in document order, so the list's elements other than section settings are those children one for one and in order (kind, text, row count, bookmark name; read with the harness's own XML reader) and the body-level w:sectPr - always the last child - is the last element. Whether a section break inside a paragraph (not a child of w:body) gets an element of its own, and where, is not demanded; when the list holds two section elements (a section break inside a paragraph plus the body-level one) the statement does not say which one is kept: L4 demands only what it states - every other element once and in order, exactly one body-level w:sectPr, last"},
	})
}

package c08

import (
	"fmt"
	"os"
	"strings"
	"testing"

	"github.com/zerx-lab/wordZero/pkg/document"
	"pgregory.net/rapid"

	"wzverif/internal/canon"
	"wzverif/internal/gen"
	"wzverif/internal/kit"
	"wzverif/internal/opc"
	"wzverif/internal/ops"
)

func TestMain(m *testing.M) {
	document.SetGlobalLevel(document.LogLevelSilent)
	kit.TestMain(m, 2500, 20000)
}

// Step is one op of the body-editing history. Kinds beyond the shared ops:
// rmhandle (S[0]: live|removed|foreign|nil, I[0]: selector), addelem (I[0]: 0 paragraph, 1 table).
type Case struct {
	Ops []ops.Op `json:"ops"`
}

var appendKinds = []string{"para", "para", "fpara", "heading", "headingbm", "headingbm2", "pagebreak", "table", "image", "imagefile", "listitem", "bullet", "numbered",
	"footnote", "endnote", "math", "mathlatex", "toc", "addelem"}
var removeKinds = []string{"rmhandle", "rmhandle", "rmparaat", "rmparaat", "rmelemat", "rmelemat"}
var sectionKinds = []string{"pagesize", "custompage", "orient", "margins", "hfdist", "gutter", "docgrid", "cleargrid", "header", "footer", "headerpn", "fheader", "ffooter", "difffirst"}
var otherKinds = []string{"align", "addtext", "pstyle", "save", "celltext", "props"}

var cfg = &ops.Config{Classes: gen.Expressible, Weights: ops.DefaultWeights}

func genCase(t *rapid.T) Case {
	n := rapid.IntRange(1, kit.Scale(40, 80)).Draw(t, "n")
	var c Case
	for i := 0; i < n; i++ {
		var k string
		switch rapid.IntRange(0, 9).Draw(t, "grp") {
		case 0, 1, 2, 3, 4:
			k = rapid.SampledFrom(appendKinds).Draw(t, "ak")
		case 5, 6, 7:
			k = rapid.SampledFrom(removeKinds).Draw(t, "rk")
		case 8:
			k = rapid.SampledFrom(sectionKinds).Draw(t, "sk")
		default:
			k = rapid.SampledFrom(otherKinds).Draw(t, "ok")
		}
		switch k {
		case "rmhandle":
			c.Ops = append(c.Ops, ops.Op{K: k, S: []string{rapid.SampledFrom([]string{"live", "live", "live", "removed", "foreign", "nil"}).Draw(t, "hk")}, I: []int{rapid.IntRange(0, 60).Draw(t, "sel")}})
		case "addelem":
			c.Ops = append(c.Ops, ops.Op{K: k, I: []int{rapid.IntRange(0, 1).Draw(t, "ek")}})
		default:
			c.Ops = append(c.Ops, cfg.OpOf(t, k))
		}
	}
	return c
}

func same(a, b []interface{}) bool {
	if len(a) != len(b) {
		return false
	}
	for i := range a {
		if a[i] != b[i] {
			return false
		}
	}
	return true
}

func idx(s []interface{}, e interface{}) int {
	for i, x := range s {
		if x == e {
			return i
		}
	}
	return -1
}

func norm(s string) string {
	s = strings.ReplaceAll(s, "\r\n", "\n")
	return strings.ReplaceAll(s, "\r", "\n")
}

// describe renders an in-memory body element for comparison with the saved XML.
func describe(e interface{}) string {
	switch v := e.(type) {
	case *document.Paragraph:
		var b strings.Builder
		b.WriteString("p:")
		for _, r := range v.Runs {
			b.WriteString(norm(r.Text.Content))
			if r.Break != nil {
				b.WriteString("⏎")
			}
			if r.Drawing != nil {
				b.WriteString("▣")
			}
		}
		return b.String()
	case *document.Table:
		t := ""
		if len(v.Rows) > 0 && len(v.Rows[0].Cells) > 0 && len(v.Rows[0].Cells[0].Paragraphs) > 0 {
			for _, r := range v.Rows[0].Cells[0].Paragraphs[0].Runs {
				t += norm(r.Text.Content)
			}
		}
		return fmt.Sprintf("tbl:%d:%s", len(v.Rows), t)
	case *document.SectionProperties:
		return "sectPr"
	case *document.BookmarkStart:
		return "bookmarkStart:" + v.Name
	case *document.BookmarkEnd:
		return "bookmarkEnd:" + v.ID
	case *document.MathParagraph:
		return "mathp"
	case *document.SDT:
		return "sdt"
	}
	return fmt.Sprintf("unknown:%T", e)
}

func describeXML(n *canon.Node) string {
	switch {
	case n.Is(canon.W, "p"):
		if n.Kid(canon.M, "oMath") != nil || n.Kid(canon.M, "oMathPara") != nil {
			return "mathp"
		}
		var b strings.Builder
		b.WriteString("p:")
		for _, r := range n.KidsNamed(canon.W, "r") {
			for _, k := range r.Kids {
				switch {
				case k.Is(canon.W, "t"):
					b.WriteString(norm(k.Text))
				case k.Is(canon.W, "br"):
					b.WriteString("⏎")
				case k.Is(canon.W, "drawing"):
					b.WriteString("▣")
				}
			}
		}
		return b.String()
	case n.Is(canon.W, "tbl"):
		rows := n.KidsNamed(canon.W, "tr")
		t := ""
		if len(rows) > 0 {
			if tc := rows[0].Kid(canon.W, "tc"); tc != nil {
				if p := tc.Kid(canon.W, "p"); p != nil {
					for _, r := range p.KidsNamed(canon.W, "r") {
						for _, tt := range r.KidsNamed(canon.W, "t") {
							t += norm(tt.Text)
						}
					}
				}
			}
		}
		return fmt.Sprintf("tbl:%d:%s", len(rows), t)
	case n.Is(canon.W, "sectPr"):
		return "sectPr"
	case n.Is(canon.W, "bookmarkStart"):
		return "bookmarkStart:" + n.A(canon.W, "name")
	case n.Is(canon.W, "bookmarkEnd"):
		return "bookmarkEnd:" + n.A(canon.W, "id")
	case n.Is(canon.W, "sdt"):
		return "sdt"
	}
	return "unknown:" + n.Name()
}

func checkSave(res *kit.Result, doc *document.Document, model []interface{}, where string) {
	var b []byte
	var err error
	if p, st := kit.Try(func() { b, err = doc.ToBytes() }); p != nil {
		res.Fail("C08.L0", "%s: ToBytes panicked: %v [%s]", where, p, st)
		return
	}
	if err != nil {
		return
	}
	res.Eval("C08.L4")
	pkg, err := opc.Read(b)
	if err != nil {
		res.Fail("C08.L4", "%s: unreadable package: %v", where, err)
		return
	}
	root, err := canon.Parse(pkg.Parts["word/document.xml"])
	if err != nil {
		res.Fail("C08.L4", "%s: main part does not parse: %v", where, err)
		return
	}
	body := root.Kid(canon.W, "body")
	if body == nil {
		res.Fail("C08.L4", "%s: no w:body", where)
		return
	}
	var want []string
	nsect := 0
	for _, e := range model {
		if _, ok := e.(*document.SectionProperties); ok {
			nsect++
			continue
		}
		want = append(want, describe(e))
	}
	if nsect > 0 {
		want = append(want, "sectPr")
	}
	var got []string
	for _, k := range body.Kids {
		got = append(got, describeXML(k))
	}
	if len(want) != len(got) {
		res.Fail("C08.L4", "%s: w:body has %d children, the body model has %d (section settings counted once, last)\n got=%q\nwant=%q", where, len(got), len(want), got, want)
		return
	}
	for i := range want {
		if want[i] != got[i] {
			res.Fail("C08.L4", "%s: child %d of w:body is %q, expected %q", where, i, got[i], want[i])
			return
		}
	}
	if nsect > 1 {
		res.Label("several-sectPr-in-model")
	}
}

func run(c Case) *kit.Result {
	res := &kit.Result{}
	document.VerifResetGlobals()
	dir, _ := os.MkdirTemp(kit.Scratch, "c08-")
	defer os.RemoveAll(dir)
	x := ops.NewExec(dir)
	doc := x.Doc
	other := document.New()
	foreign := other.AddParagraph("foreign")
	var model []interface{}
	var removed []*document.Paragraph
	hasSect := func() bool {
		for _, e := range model {
			if _, ok := e.(*document.SectionProperties); ok {
				return true
			}
		}
		return false
	}
	appends, kindsSeen, okRemovals, failedRemovals, sectBeforeAppend, sectMiddle := 0, map[string]bool{}, 0, 0, false, false
	var shape []string
	for i, op := range c.Ops {
		before := append([]interface{}(nil), doc.Body.Elements...)
		if !same(before, model) {
			res.Fail("C08.L1", "before op %d the body is not the model", i)
			return res
		}
		grp := "other"
		var ret bool
		var target interface{}
		expectRemove := -2 // -2: not a removal; -1: must fail; >=0: index to be removed
		var pan interface{}
		var st string
		switch op.K {
		case "rmhandle":
			grp = "remove"
			var h *document.Paragraph
			paras := []*document.Paragraph{}
			for _, e := range model {
				if p, ok := e.(*document.Paragraph); ok {
					paras = append(paras, p)
				}
			}
			switch op.S[0] {
			case "live":
				if len(paras) > 0 {
					h = paras[ops.In(op.I[0], len(paras))]
				}
			case "removed":
				if len(removed) > 0 {
					h = removed[ops.In(op.I[0], len(removed))]
				}
			case "foreign":
				h = foreign
			}
			expectRemove = -1
			if h != nil {
				if j := idx(model, h); j >= 0 {
					expectRemove = j
				}
			}
			target = h
			res.Label("rmhandle:" + op.S[0])
			pan, st = kit.Try(func() { ret = doc.RemoveParagraph(h) })
		case "rmparaat":
			grp = "remove"
			np := 0
			for _, e := range model {
				if _, ok := e.(*document.Paragraph); ok {
					np++
				}
			}
			k := ops.Sel(op.I[0], np)
			expectRemove = -1
			cnt := 0
			for j, e := range model {
				if _, ok := e.(*document.Paragraph); ok {
					if cnt == k {
						expectRemove = j
					}
					cnt++
				}
			}
			if k < 0 || k >= np {
				res.Label("rm-out-of-range")
			}
			pan, st = kit.Try(func() { ret = doc.RemoveParagraphAt(k) })
		case "rmelemat":
			grp = "remove"
			k := ops.Sel(op.I[0], len(model))
			expectRemove = -1
			if k >= 0 && k < len(model) {
				expectRemove = k
			} else {
				res.Label("rm-out-of-range")
			}
			pan, st = kit.Try(func() { ret = doc.RemoveElementAt(k) })
		case "addelem":
			grp = "append"
			var e interface{}
			if op.I[0] == 0 {
				e = &document.Paragraph{Runs: []document.Run{{Text: document.Text{Content: fmt.Sprintf("added%d", i)}}}}
			} else {
				t, _ := doc.CreateTable(&document.TableConfig{Rows: 1, Cols: 1, Width: 1000})
				e = t
			}
			target = e
			pan, st = kit.Try(func() { doc.Body.AddElement(e) })
		default:
			for _, k := range appendKinds {
				if k == op.K {
					grp = "append"
				}
			}
			for _, k := range sectionKinds {
				if k == op.K {
					grp = "section"
				}
			}
			// make paragraph texts distinguishable in the saved part
			if grp == "append" && len(op.S) > 0 && op.K != "math" && op.K != "mathlatex" && op.K != "toc" {
				op.S = append([]string{fmt.Sprintf("%s#%d", op.S[0], i)}, op.S[1:]...)
			}
			var err error
			pan, st = kit.Try(func() { err = x.Do(op) })
			if err != nil {
				grp += "-err"
			}
		}
		if pan != nil {
			res.Fail("C08.L0", "op %d %s panicked: %v [%s]", i, op.K, pan, st)
			return res
		}
		after := doc.Body.Elements
		shape = append(shape, op.K+":"+grp)
		switch {
		case grp == "remove":
			res.Eval("C08.L3")
			if expectRemove >= 0 {
				if !ret {
					res.Fail("C08.L3", "op %d %s: target exists at element index %d but the call reported failure", i, op.K, expectRemove)
					return res
				}
				want := append(append([]interface{}(nil), model[:expectRemove]...), model[expectRemove+1:]...)
				if !same(after, want) {
					res.Fail("C08.L3", "op %d %s reported success but did not remove exactly element %d (len %d -> %d)", i, op.K, expectRemove, len(model), len(after))
					return res
				}
				if p, ok := model[expectRemove].(*document.Paragraph); ok {
					removed = append(removed, p)
				}
				model = want
				okRemovals++
				if appends >= 4 {
					res.Label("removal-after-4-appends")
				}
			} else {
				if ret {
					res.Fail("C08.L3", "op %d %s: target %v does not exist but the call reported success", i, op.K, target)
					return res
				}
				if !same(after, model) {
					res.Fail("C08.L3", "op %d %s reported failure but changed the body (len %d -> %d)", i, op.K, len(model), len(after))
					return res
				}
				failedRemovals++
			}
		case strings.HasPrefix(grp, "append"):
			res.Eval("C08.L1")
			if len(after) < len(model) || !same(after[:len(model)], model) {
				res.Fail("C08.L1", "op %d %s disturbed the existing elements (len %d -> %d)", i, op.K, len(model), len(after))
				return res
			}
			grown := after[len(model):]
			if grp == "append" && len(grown) == 0 {
				res.Fail("C08.L1", "op %d %s succeeded but appended nothing", i, op.K)
				return res
			}
			for _, e := range grown {
				if idx(model, e) >= 0 {
					res.Fail("C08.L1", "op %d %s appended an element that is already in the body", i, op.K)
					return res
				}
				if _, ok := e.(*document.SectionProperties); ok && op.K != "addelem" {
					res.Fail("C08.L1", "op %d %s appended section settings", i, op.K)
					return res
				}
			}
			if target != nil && (len(grown) != 1 || grown[0] != target) {
				res.Fail("C08.L1", "op %d AddElement did not append exactly the given element", i)
				return res
			}
			if len(grown) > 0 {
				appends++
				kindsSeen[op.K] = true
				if hasSect() {
					sectBeforeAppend = true
					sectMiddle = true
				}
				if len(grown) > 1 {
					res.Label("multi-element-append")
				}
			}
			model = append(model, grown...)
		case strings.HasPrefix(grp, "section"):
			res.Eval("C08.L1")
			if len(after) < len(model) || !same(after[:len(model)], model) {
				res.Fail("C08.L1", "op %d %s (page/header call) disturbed the existing elements", i, op.K)
				return res
			}
			grown := after[len(model):]
			if len(grown) > 1 {
				res.Fail("C08.L1", "op %d %s appended %d elements", i, op.K, len(grown))
				return res
			}
			if len(grown) == 1 {
				if _, ok := grown[0].(*document.SectionProperties); !ok {
					res.Fail("C08.L1", "op %d %s appended a %T", i, op.K, grown[0])
					return res
				}
				if hasSect() {
					res.Fail("C08.L1", "op %d %s created second section settings although the body already has them", i, op.K)
					return res
				}
			}
			model = append(model, grown...)
		default:
			if !same(after, model) {
				res.Fail("C08.L1", "op %d %s (not a body-structure call) changed the element list", i, op.K)
				return res
			}
		}
		// L2 accessors
		res.Eval("C08.L2")
		var wp []*document.Paragraph
		var wt []*document.Table
		for _, e := range model {
			switch v := e.(type) {
			case *document.Paragraph:
				wp = append(wp, v)
			case *document.Table:
				wt = append(wt, v)
			}
		}
		gp, gt := doc.Body.GetParagraphs(), doc.Body.GetTables()
		if len(gp) != len(wp) || len(gt) != len(wt) {
			res.Fail("C08.L2", "after op %d: GetParagraphs/GetTables return %d/%d, model has %d/%d", i, len(gp), len(gt), len(wp), len(wt))
			return res
		}
		for j := range gp {
			if gp[j] != wp[j] {
				res.Fail("C08.L2", "after op %d: GetParagraphs()[%d] is not the model's paragraph", i, j)
				return res
			}
		}
		for j := range gt {
			if gt[j] != wt[j] {
				res.Fail("C08.L2", "after op %d: GetTables()[%d] is not the model's table", i, j)
				return res
			}
		}
		if op.K == "save" {
			checkSave(res, doc, model, fmt.Sprintf("save at op %d", i))
		}
	}
	checkSave(res, doc, model, "final save")
	if sectMiddle {
		res.Label("sectPr-in-the-middle")
	}
	if failedRemovals > 0 {
		res.Label("failed-removal")
	}
	res.Nontrivial = okRemovals >= 1 && appends >= 4 && len(kindsSeen) >= 3 && sectBeforeAppend
	res.Shape = strings.Join(shape, "|")
	return res
}

func TestC08(t *testing.T) {
	kit.Main(t, kit.Spec[Case]{
		ID: "C08", Level: "exploration",
		Rule: "history of 1-40 (thorough 1-80) body-editing calls: every append constructor, removals by handle (live, already removed, foreign, nil) / paragraph index / element index with selectors covering -1, every valid index, n, n+1, and page-setting/header/footer calls that create section settings at arbitrary points; reference model = slice of element identities compared pointer-for-pointer after every call, plus the child order of w:body at drawn saves and at the end. non-trivial = >=1 successful removal after >=4 appends of >=3 kinds with section settings created before the last append; distinct = distinct sequence of (op kind, outcome group)",
		Gen:  genCase, Run: run, Findings: findings,
		MustSee: map[string]float64{"rm-out-of-range": 0.3, "rmhandle:removed": 0.1, "rmhandle:foreign": 0.1, "sectPr-in-the-middle": 0.2, "multi-element-append": 0.2, "failed-removal": 0.3},
		Assumptions: []string{"AutoGenerateTOC (prepends by design) and UpdateTOC are not append operations and are judged under C15",
			"paragraph texts carry a per-op marker so that the saved children can be matched to model elements; text is drawn from XML-expressible classes"},
	})
}

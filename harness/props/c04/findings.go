package c04

import (
	"fmt"
	"regexp"
	"strconv"
	"strings"

	"wzverif/internal/foreign"
	"wzverif/internal/kit"
)

const (
	kfTargetMode  = "KF-C04-targetmode"
	kfStylesRel   = "KF-C04-styles-rel"
	kfRelIDAlloc  = "KF-C04-relid-alloc"
	kfRelIDHeader = "KF-C04-relid-alloc-header"
	kfPkgRelID    = "KF-C04-pkgrel-alloc"
	kfTplPkgRels  = "KF-C04-template-pkgrels"
	kfOPCPrefix   = "KF-C04-opc-prefix"
	kfMultiT      = "KF-C04-multi-t"
	kfInline      = "KF-C04-inline-container"
	kfBlockSdt    = "KF-C04-block-sdt"
	kfNestedTbl   = "KF-C04-nested-table"
	kfCellOrder   = "KF-C04-cell-order"
)

func hasOp(c Case, kinds ...string) bool {
	for _, o := range c.Ops {
		for _, k := range kinds {
			if o.K == k {
				return true
			}
		}
	}
	return false
}

func countOps(c Case, kinds ...string) int {
	n := 0
	for _, o := range c.Ops {
		for _, k := range kinds {
			if o.K == k {
				n++
			}
		}
	}
	return n
}

// op kinds through which the library appends a relationship to the main part's relationship list
var relAdding = []string{"image", "imagefile", "cellimg", "header", "footer", "headerpn", "footerpn", "fheader", "ffooter", "listitem", "bullet", "numbered"}

// op kinds through which the library appends a relationship to the package relationship list
var pkgRelAdding = []string{"footnote", "endnote", "notecfg"}

func stylesRel(p foreign.Package) (foreign.Rel, bool) {
	for _, r := range p.DocRels {
		if r.Type == foreign.RelStyles {
			return r, true
		}
	}
	return foreign.Rel{}, false
}

var idInDetail = regexp.MustCompile(`Id="([^"]*)"`)

func detailID(f kit.Failure) string {
	m := idInDetail.FindStringSubmatch(f.Detail)
	if m == nil {
		return ""
	}
	return m[1]
}

func ridNumber(id string) (int, bool) {
	if !strings.HasPrefix(id, "rId") {
		return 0, false
	}
	n, err := strconv.Atoi(id[3:])
	if err != nil || n < 0 {
		return 0, false
	}
	return n, true
}

// libraryDense reports the number of non-styles relationships of the main part and whether their ids are
// the library's own numbering rId2..rId<n+1> in order (then rId<count+2> is always fresh).
func libraryDense(p foreign.Package) (int, bool) {
	n := 0
	dense := true
	for _, r := range p.DocRels {
		if r.Type == foreign.RelStyles {
			continue
		}
		n++
		if k, ok := ridNumber(r.ID); !ok || k != n+1 {
			dense = false
		}
	}
	return n, dense
}

func blockHasText(b foreign.Block) bool {
	p := foreign.Minimal()
	p.Body = []foreign.Block{b}
	return p.Text() != ""
}

// tableBeforeTextInCell: some cell holds a nested table (with text) followed by a paragraph with text.
func tableBeforeTextInCell(blocks []foreign.Block) bool {
	for _, b := range blocks {
		switch b.K {
		case "tbl":
			for _, row := range b.Rows {
				for _, cell := range row {
					seenTbl := false
					for _, cb := range cell.Blocks {
						if cb.K == "tbl" && blockHasText(cb) {
							seenTbl = true
						} else if cb.K == "p" && seenTbl && blockHasText(cb) {
							return true
						}
					}
					if tableBeforeTextInCell(cell.Blocks) {
						return true
					}
				}
			}
		case "sdt":
			if tableBeforeTextInCell(b.Blocks) {
				return true
			}
		}
	}
	return false
}

const docRels = "word/_rels/document.xml.rels: "
const pkgRels = "_rels/.rels: "

var findings = []kit.Finding[Case]{
	{
		ID:     kfTargetMode,
		Clause: "C04.N3.mode",
		Desc:   "the relationship model has no TargetMode: every TargetMode=\"External\" relationship of the main part (external hyperlinks) is written back without it, i.e. as an internal target",
		// input class: the main part of the opened package has an external relationship; the failure is about that part's relationships
		Trigger: func(c Case, f kit.Failure) bool {
			return strings.HasPrefix(f.Detail, docRels) && c.Pkg.Has(foreign.FExtRel)
		},
	},
	{
		ID:     kfStylesRel,
		Clause: "C04.N3.",
		Desc:   "the styles relationship is dropped on open and re-created on save as Id=rId1 Target=styles.xml: a styles relationship with another id or target loses its id/target, and a package whose rId1 names another part (or that has no styles part) ends up with two rId1",
		// input class: (a) the failing relationship is the styles relationship and it is not exactly (rId1, styles.xml);
		// (b) the failure is a doubled rId1 and the package uses rId1 for something that is not the styles part
		Trigger: func(c Case, f kit.Failure) bool {
			if !strings.HasPrefix(f.Detail, docRels) {
				return false
			}
			if strings.Contains(f.Detail, "…/styles") {
				r, ok := stylesRel(c.Pkg)
				return ok && (r.ID != "rId1" || r.Target != "styles.xml") && detailID(f) == r.ID
			}
			if f.Clause == "C04.N3.unique" && detailID(f) == "rId1" {
				return c.Pkg.Has(foreign.FRID1Other)
			}
			return false
		},
	},
	{
		ID:     kfRelIDAlloc,
		Clause: "C04.N3.unique",
		Desc:   "new relationships of the main part get the id rId<count+2> (image, header/footer, numbering): when the ids of the opened package are not the library's own dense numbering this repeats an id that is in use",
		// input class: an edit that appends a relationship to the main part, a package whose non-styles ids are not rId2..rId<n+1>,
		// and the doubled id is one the allocator can produce: rId<k>, n+2 <= k+? ... k within [2, n+1+appended]
		Trigger: func(c Case, f kit.Failure) bool {
			if !strings.HasPrefix(f.Detail, docRels) {
				return false
			}
			adds := countOps(c, relAdding...)
			if adds == 0 {
				return false
			}
			n, dense := libraryDense(c.Pkg)
			if dense {
				return false
			}
			k, ok := ridNumber(detailID(f))
			// reopen / template render keep the list length, so the ids handed out lie in [n+2, n+1+adds]
			return ok && k >= n+2 && k <= n+1+adds
		},
	},
	{
		ID:     kfRelIDHeader,
		Clause: "C04.N1",
		Desc:   "same id allocation (rId<count+2>) seen through the parts: a header/footer added after open gets the id of a header/footer relationship of the package; the next call for the same kind resolves the kind's reference to the package's part and overwrites it",
		// input class: two or more header/footer calls, ids that are not the library's dense numbering, and the changed part is the
		// target of a header/footer relationship of the package whose id the allocator can hand out
		Trigger: func(c Case, f kit.Failure) bool {
			hfOps := countOps(c, "header", "footer", "headerpn", "footerpn", "fheader", "ffooter")
			if hfOps < 2 || !strings.Contains(f.Detail, " changed: ") {
				return false
			}
			n, dense := libraryDense(c.Pkg)
			if dense {
				return false
			}
			adds := countOps(c, relAdding...)
			for _, r := range c.Pkg.DocRels {
				if r.Type != foreign.RelHeader && r.Type != foreign.RelFooter {
					continue
				}
				name := "word/" + strings.TrimPrefix(r.Target, "/word/")
				if !strings.HasPrefix(f.Detail, fmt.Sprintf("part %q changed", name)) {
					continue
				}
				k, ok := ridNumber(r.ID)
				return ok && k >= n+2 && k <= n+1+adds
			}
			return false
		},
	},
	{
		ID:     kfPkgRelID,
		Clause: "C04.N3.unique",
		Desc:   "footnote/endnote/footnote-config calls append a relationship with id rId<count+1> to the package relationship part: with package ids that are not the dense rId1..n this repeats an id that is in use",
		Trigger: func(c Case, f kit.Failure) bool {
			if !strings.HasPrefix(f.Detail, pkgRels) || !hasOp(c, pkgRelAdding...) {
				return false
			}
			n := len(c.Pkg.PkgRels)
			k, ok := ridNumber(detailID(f))
			return ok && k >= n+1 && k <= n+3
		},
	},
	{
		ID:     kfTplPkgRels,
		Clause: "C04.N3.",
		Desc:   "rendering the opened document as a template builds the result from New(): the package relationship part is replaced by the library's default one (docProps relationships gone, ids and target spelling of the main-part relationship changed)",
		// input class: the history renders the opened document as a template; the failure is about the package relationship part
		Trigger: func(c Case, f kit.Failure) bool {
			return strings.HasPrefix(f.Detail, pkgRels) && hasOp(c, "tpldoc") && f.Clause != "C04.N3.unique"
		},
	},
	{
		ID:     kfOPCPrefix,
		Clause: "C04.N",
		Desc:   "a content-types or relationship part whose elements carry a namespace prefix (<ns0:Types xmlns:ns0=…>) is re-serialised with xmlns=\"\": after save [Content_Types].xml, _rels/.rels and word/_rels/document.xml.rels are in no namespace, so no content type and no relationship of the package can be read any more",
		// input class: the package writes its OPC parts with a prefix; the failure is that one of the three re-serialised parts has a root in no namespace
		Trigger: func(c Case, f kit.Failure) bool {
			if f.Clause != "C04.N2.ctpart" && f.Clause != "C04.N3.relpart" {
				return false
			}
			return c.Pkg.OPCPrefix != "" && (strings.Contains(f.Detail, "root is {}Types") || strings.Contains(f.Detail, "root is {}Relationships"))
		},
	},
	{
		ID:      kfMultiT,
		Clause:  "C04.N5." + catMultiT,
		Desc:    "a run with several w:t keeps only the text of the last one (the reader overwrites Run.Text for every w:t)",
		Trigger: func(c Case, f kit.Failure) bool { return c.Pkg.Has(foreign.FMultiT) },
	},
	{
		ID:     kfInline,
		Clause: "C04.N5." + catInline,
		Desc:   "runs that are not direct children of the paragraph (inside w:hyperlink, w:ins, w:smartTag, inline w:sdt, w:fldSimple) are skipped by the reader: their text is gone after save",
		Trigger: func(c Case, f kit.Failure) bool {
			for _, ft := range []string{foreign.FHyperlink, foreign.FIns, foreign.FSmartTag, foreign.FInlineSdt, foreign.FFldSimple} {
				if c.Pkg.Has(ft) {
					return true
				}
			}
			return false
		},
	},
	{
		ID:      kfBlockSdt,
		Clause:  "C04.N5." + catBlockSdt,
		Desc:    "a block-level content control (w:sdt around paragraphs) is skipped by the reader as an unknown body element: all its text is gone after save",
		Trigger: func(c Case, f kit.Failure) bool { return c.Pkg.Has(foreign.FBlockSdt) },
	},
	// KF-C04-cell-order (a cell written back with its paragraphs before its nested tables) is fixed in /repo; the text
	// clause now demands strict document order, so a change of order is reported by the loss clauses (the moved text
	// is lost at its place) and has no clause of its own any more. Its witness stays a regression replay.
	{
		ID:      kfNestedTbl,
		Clause:  "C04.N5." + catNestedTbl,
		Desc:    "a table inside a table cell is skipped by the cell reader: the text of the nested table is gone after save",
		Trigger: func(c Case, f kit.Failure) bool { return c.Pkg.Has(foreign.FNestedTable) },
	},
}

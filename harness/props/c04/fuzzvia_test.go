package c04

import (
	"testing"

	"wzverif/internal/kit"
)

// FuzzC04: coverage-guided search over the generator and oracle of TestC04 (thorough tier; see internal/kit/fuzz.go).
func FuzzC04(f *testing.F) { kit.FuzzVia(f, TestC04) }

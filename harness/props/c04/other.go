package c04

import (
	"bytes"
	"io"
	"strings"

	"github.com/zerx-lab/wordZero/pkg/document"
	"pgregory.net/rapid"

	"wzverif/internal/foreign"
	"wzverif/internal/gen"
	"wzverif/internal/kit"
	"wzverif/internal/opc"
	"wzverif/internal/ops"
)

// A second document object, used alternately with the judged one: a caller that converts or merges documents has
// several open at a time. The calls below go to the OTHER object only, so for the judged document they are no edits
// at all: they put nothing into its regenerated set, explain no new part of it and leave its body text alone.
//
//	odopen    I[0] = 0 OpenFromMemory of the same package bytes, 1 document.New(), 2 OpenFromMemory of a minimal foreign package
//	odimage   AddImageFromData on the other object
//	odpara    AddParagraph on the other object
//	odheader  AddHeader(I[0] kind) on the other object
//	odsave    ToBytes of the other object; when it was opened from the same package its media are held to N4 as well
var otherKinds = map[string]bool{"odopen": true, "odimage": true, "odpara": true, "odheader": true, "odsave": true}

func isOther(k string) bool { return otherKinds[k] }

func init() {
	for k := range otherKinds {
		bodyNeutral[k] = true
	}
}

type otherDoc struct {
	doc      *document.Document
	samePkg  bool
	overrun  []string // N4 violations seen in the other object's output
	saves    int
	P        *opc.Package
	pkgBytes []byte
}

// genOther draws the calls on the second object (odopen first) - the caller spreads them over the history in order.
func genOther(t *rapid.T) []ops.Op {
	out := []ops.Op{{K: "odopen", I: []int{rapid.SampledFrom([]int{0, 0, 1, 2}).Draw(t, "odsrc")}}}
	n := rapid.IntRange(1, 4).Draw(t, "nod")
	for i := 0; i < n; i++ {
		switch k := rapid.SampledFrom([]string{"odimage", "odimage", "odimage", "odpara", "odheader", "odsave"}).Draw(t, "odkind"); k {
		case "odimage":
			im := gen.Img{Fmt: rapid.SampledFrom([]string{"png", "jpeg", "gif"}).Draw(t, "odfmt"), W: rapid.IntRange(1, 8).Draw(t, "odw"), H: rapid.IntRange(10, 12).Draw(t, "odh"), Pat: rapid.IntRange(0, 1<<20).Draw(t, "odpat"), Name: "other.png"}
			out = append(out, ops.Op{K: k, Img: &im})
		case "odpara":
			out = append(out, ops.Op{K: k, S: []string{"paragraph of the other document"}})
		case "odheader":
			out = append(out, ops.Op{K: k, I: []int{rapid.IntRange(0, 2).Draw(t, "odhf")}, S: []string{"header of the other document"}})
		default:
			out = append(out, ops.Op{K: k})
		}
	}
	return out
}

func (od *otherDoc) do(o ops.Op) error {
	if o.K == "odopen" {
		var d *document.Document
		var err error
		switch opI(o, 0) {
		case 1:
			d = document.New()
		case 2:
			d, err = document.OpenFromMemory(io.NopCloser(bytes.NewReader(foreign.Minimal().Bytes())))
		default:
			d, err = document.OpenFromMemory(io.NopCloser(bytes.NewReader(od.pkgBytes)))
		}
		if err != nil || d == nil {
			return errNoTarget // the judged object opened the same bytes; a refusal here is nothing C04 speaks about
		}
		od.doc, od.samePkg = d, opI(o, 0) == 0
		return nil
	}
	if od.doc == nil {
		return errNoTarget
	}
	switch o.K {
	case "odimage":
		if o.Img == nil {
			return errNoTarget
		}
		_, err := od.doc.AddImageFromData(o.Img.Bytes(), o.Img.Name, ops.ImgFormats[o.Img.Fmt], o.Img.W, o.Img.H, nil)
		return err
	case "odpara":
		od.doc.AddParagraph(opS(o, 0))
	case "odheader":
		return od.doc.AddHeader(document.HeaderFooterType(hfKind(opI(o, 0))), opS(o, 0))
	case "odsave":
		b, err := od.doc.ToBytes()
		if err != nil {
			return err
		}
		od.saves++
		if !od.samePkg {
			return nil
		}
		Q, err := opc.Read(b)
		if err != nil {
			return nil
		}
		for _, name := range od.P.SortedNames() {
			if ct, _ := od.P.ContentTypeOf(name); !strings.HasPrefix(ct, "image/") {
				continue
			}
			if got, ok := Q.Parts[name]; !ok || !bytes.Equal(got, od.P.Parts[name]) {
				od.overrun = append(od.overrun, name)
			}
		}
	}
	return nil
}

// report turns what the second object's saves showed into N4 failures.
func (od *otherDoc) report(res *kit.Result) {
	for _, name := range od.overrun {
		res.Fail("C04.N4", "media part %q of the opened package was overwritten or is gone in the output of a second document object opened from the same package and edited alternately", name)
	}
}

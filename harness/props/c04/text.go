package c04

import (
	"fmt"
	"sort"
	"strings"

	"wzverif/internal/canon"
	"wzverif/internal/foreign"
)

// Text clause N5, decided on the two main parts only (no use of the generator's description).
//
// Every w:t under w:body of the opened package is an item with its nesting read from the tree. The
// saved text must be the concatenation of all items (equal / prefix). When it is not, the check asks
// which *classes of nesting* have to be given up to explain the saved text as a concatenation of the
// remaining items; each class is its own clause, so a loss outside these classes (or one that no
// combination explains) is reported on its own.

const (
	catMultiT    = "multi-t"          // w:t that is not the last w:t of its run
	catInline    = "inline-container" // run whose parent is not the paragraph (hyperlink, ins, smartTag, sdt, fldSimple ...)
	catBlockSdt  = "block-sdt"        // paragraph inside a block-level w:sdt
	catNestedTbl = "nested-table"     // paragraph inside a table inside a table cell
)

var allCats = []string{catMultiT, catInline, catBlockSdt, catNestedTbl}

type tItem struct {
	Text string
	Path string
	Cats map[string]bool
}

const nsW = foreign.NSW

func bodyItems(main []byte) ([]tItem, error) {
	root, err := canon.Parse(main)
	if err != nil {
		return nil, err
	}
	if !root.Is(nsW, "document") {
		return nil, fmt.Errorf("root is %s", root.Name())
	}
	body := root.Kid(nsW, "body")
	if body == nil {
		return nil, fmt.Errorf("no w:body")
	}
	var out []tItem
	for _, t := range body.All(nsW, "t") {
		it := tItem{Text: t.Text, Cats: map[string]bool{}}
		var chain []string
		for a := t.Parent; a != nil && a != body; a = a.Parent {
			chain = append(chain, a.Local)
		}
		for i, j := 0, len(chain)-1; i < j; i, j = i+1, j-1 {
			chain[i], chain[j] = chain[j], chain[i]
		}
		it.Path = strings.Join(chain, "/")
		run := t.Parent
		if run != nil && run.Is(nsW, "r") {
			ts := run.KidsNamed(nsW, "t")
			if len(ts) > 1 && ts[len(ts)-1] != t {
				it.Cats[catMultiT] = true
			}
			if run.Parent != nil && !run.Parent.Is(nsW, "p") {
				it.Cats[catInline] = true
			}
		} else {
			it.Cats["not-in-run"] = true
		}
		// nearest paragraph and what is above it
		var p *canon.Node
		for a := t.Parent; a != nil && a != body; a = a.Parent {
			if a.Is(nsW, "p") {
				p = a
				break
			}
		}
		if p != nil {
			tbls := 0
			for a := p.Parent; a != nil && a != body; a = a.Parent {
				if a.Is(nsW, "sdt") {
					it.Cats[catBlockSdt] = true
				}
				if a.Is(nsW, "tbl") {
					tbls++
				}
			}
			if tbls > 1 {
				it.Cats[catNestedTbl] = true
			}
		}
		out = append(out, it)
	}
	return out, nil
}

// explains reports whether saved can be written as the concatenation, in order, of the items that
// remain when items of the given classes may (but need not) be dropped. whole: the concatenation must
// be all of saved; otherwise a prefix of it.
func explains(items []tItem, saved string, whole bool, drop map[string]bool) bool {
	pos := map[int]bool{0: true}
	for _, it := range items {
		next := map[int]bool{}
		droppable := false
		for c := range it.Cats {
			if drop[c] {
				droppable = true
			}
		}
		for p := range pos {
			if droppable {
				next[p] = true
			}
			if strings.HasPrefix(saved[p:], it.Text) {
				next[p+len(it.Text)] = true
			}
		}
		if len(next) == 0 {
			return false
		}
		pos = next
	}
	if !whole {
		return true
	}
	return pos[len(saved)]
}

// textLoss returns nil when the saved text keeps every item; otherwise the smallest set of nesting
// classes whose loss explains the saved text, or ["other"] when none does. An item nested several
// ways (a multi-w:t run inside a hyperlink inside a content control) can be explained by any of its
// classes; classes in prefer (those with an open finding) are tried first, so that a loss is blamed
// on a closed class only when the open ones cannot explain it.
func textLoss(items []tItem, saved string, whole bool, prefer map[string]bool) []string {
	if explains(items, saved, whole, nil) {
		return nil
	}
	search := func(cats []string) []string {
		best := []string(nil)
		for mask := 1; mask < 1<<len(cats); mask++ {
			drop := map[string]bool{}
			var names []string
			for i, c := range cats {
				if mask&(1<<i) != 0 {
					drop[c] = true
					names = append(names, c)
				}
			}
			if best != nil && len(names) >= len(best) {
				continue
			}
			if explains(items, saved, whole, drop) {
				best = names
			}
		}
		return best
	}
	var pref []string
	for _, c := range allCats {
		if prefer[c] {
			pref = append(pref, c)
		}
	}
	best := search(pref)
	if best == nil {
		best = search(allCats)
	}
	if best == nil {
		return []string{"other"}
	}
	sort.Strings(best)
	return best
}

func firstOf(items []tItem, cat string) string {
	n := 0
	ex := ""
	for _, it := range items {
		if it.Cats[cat] && it.Text != "" {
			if n == 0 {
				ex = fmt.Sprintf("e.g. %q at %s", clip(it.Text), it.Path)
			}
			n++
		}
	}
	return fmt.Sprintf("%d non-empty w:t of this kind in the opened package, %s", n, ex)
}

func concat(items []tItem) string {
	var b strings.Builder
	for _, it := range items {
		b.WriteString(it.Text)
	}
	return b.String()
}

package c04

import (
	"fmt"
	"sort"
	"strings"

	"wzverif/internal/canon"
	"wzverif/internal/foreign"
)

// Text clause N5, decided on the two main parts only (no use of the generator's description).
//
// Every w:t under w:body of the opened package is an item with its nesting read from the tree. The
// saved text must be the concatenation of all items (equal / prefix). When it is not, the check asks
// which *classes of nesting* have to be given up to explain the saved text as a concatenation of the
// remaining items; each class is its own clause, so a loss outside these classes (or one that no
// combination explains) is reported on its own.

const (
	catMultiT    = "multi-t"          // w:t that is not the last w:t of its run
	catInline    = "inline-container" // run whose parent is not the paragraph (hyperlink, ins, smartTag, sdt, fldSimple ...)
	catBlockSdt  = "block-sdt"        // paragraph inside a block-level w:sdt
	catNestedTbl = "nested-table"     // paragraph inside a table inside a table cell
)

var allCats = []string{catMultiT, catInline, catBlockSdt, catNestedTbl}

type tItem struct {
	Text string
	Path string
	Cats map[string]bool
}

const nsW = foreign.NSW

// bodyItems returns every w:t under w:body in document order, with its nesting.
func bodyItems(main []byte) ([]tItem, error) {
	root, err := canon.Parse(main)
	if err != nil {
		return nil, err
	}
	if !root.Is(nsW, "document") {
		return nil, fmt.Errorf("root is %s", root.Name())
	}
	body := root.Kid(nsW, "body")
	if body == nil {
		return nil, fmt.Errorf("no w:body")
	}
	var ts []*canon.Node
	var walk func(n *canon.Node)
	walk = func(n *canon.Node) {
		if n.Is(nsW, "t") {
			ts = append(ts, n)
		}
		for _, k := range n.Kids {
			walk(k)
		}
	}
	walk(body)
	var out []tItem
	for _, t := range ts {
		it := tItem{Text: t.Text, Cats: map[string]bool{}}
		var chain []string
		for a := t.Parent; a != nil && a != body; a = a.Parent {
			chain = append(chain, a.Local)
		}
		for i, j := 0, len(chain)-1; i < j; i, j = i+1, j-1 {
			chain[i], chain[j] = chain[j], chain[i]
		}
		it.Path = strings.Join(chain, "/")
		run := t.Parent
		if run != nil && run.Is(nsW, "r") {
			ts := run.KidsNamed(nsW, "t")
			if len(ts) > 1 && ts[len(ts)-1] != t {
				it.Cats[catMultiT] = true
			}
			if run.Parent != nil && !run.Parent.Is(nsW, "p") {
				it.Cats[catInline] = true
			}
		} else {
			it.Cats["not-in-run"] = true
		}
		// nearest paragraph and what is above it
		var p *canon.Node
		for a := t.Parent; a != nil && a != body; a = a.Parent {
			if a.Is(nsW, "p") {
				p = a
				break
			}
		}
		if p != nil {
			tbls := 0
			for a := p.Parent; a != nil && a != body; a = a.Parent {
				if a.Is(nsW, "sdt") {
					it.Cats[catBlockSdt] = true
				}
				if a.Is(nsW, "tbl") {
					tbls++
				}
			}
			if tbls > 1 {
				it.Cats[catNestedTbl] = true
			}
		}
		out = append(out, it)
	}
	return out, nil
}

// explains reports whether saved can be written as the concatenation, in order, of the items that
// remain when items of the given classes may (but need not) be dropped. whole: the concatenation must
// be all of saved; otherwise a prefix of it.
func explains(items []tItem, saved string, whole bool, drop map[string]bool) bool {
	pos := map[int]bool{0: true}
	for _, it := range items {
		next := map[int]bool{}
		droppable := false
		for c := range it.Cats {
			if drop[c] {
				droppable = true
			}
		}
		for p := range pos {
			if droppable {
				next[p] = true
			}
			if strings.HasPrefix(saved[p:], it.Text) {
				next[p+len(it.Text)] = true
			}
		}
		if len(next) == 0 {
			return false
		}
		pos = next
	}
	if !whole {
		return true
	}
	return pos[len(saved)]
}

// searchDrop returns the smallest subset of cats whose loss explains saved (nil if none does).
func searchDrop(items []tItem, saved string, whole bool, cats []string) []string {
	best := []string(nil)
	for mask := 1; mask < 1<<len(cats); mask++ {
		drop := map[string]bool{}
		var names []string
		for i, c := range cats {
			if mask&(1<<i) != 0 {
				drop[c] = true
				names = append(names, c)
			}
		}
		if best != nil && len(names) >= len(best) {
			continue
		}
		if explains(items, saved, whole, drop) {
			best = names
		}
	}
	sort.Strings(best)
	return best
}

// textLoss explains the saved text in strict document order. ok: every item kept, in the order of the opened
// package. Otherwise, in this order of preference: (1) loss of nesting classes that have an open finding (prefer);
// (2) loss of any nesting classes; (3) ["other"] - which includes every change of order: text that is still there
// but somewhere else is lost at its place. An item nested several ways can be explained by any of its classes; trying
// the open classes first blames a loss on a closed class only when the open ones cannot explain it.
func textLoss(items []tItem, saved string, whole bool, prefer map[string]bool) (ok bool, classes []string) {
	if explains(items, saved, whole, nil) {
		return true, nil
	}
	var pref []string
	for _, c := range allCats {
		if prefer[c] {
			pref = append(pref, c)
		}
	}
	for _, cats := range [][]string{pref, allCats} {
		if best := searchDrop(items, saved, whole, cats); best != nil {
			return false, best
		}
	}
	return false, []string{"other"}
}

// orderHint: diagnostics for a text that is not kept in order - are the same characters still all there?
func orderHint(before, after string, whole bool) string {
	if !whole || len(before) != len(after) {
		return ""
	}
	a, b := []byte(before), []byte(after)
	sort.Slice(a, func(i, j int) bool { return a[i] < a[j] })
	sort.Slice(b, func(i, j int) bool { return b[i] < b[j] })
	if string(a) == string(b) {
		return " [the saved text has the same bytes in another order: text moved]"
	}
	return ""
}

func firstOf(items []tItem, cat string) string {
	n := 0
	ex := ""
	for _, it := range items {
		if it.Cats[cat] && it.Text != "" {
			if n == 0 {
				ex = fmt.Sprintf("e.g. %q at %s", clip(it.Text), it.Path)
			}
			n++
		}
	}
	return fmt.Sprintf("%d non-empty w:t of this kind in the opened package, %s", n, ex)
}

func concat(items []tItem) string {
	var b strings.Builder
	for _, it := range items {
		b.WriteString(it.Text)
	}
	return b.String()
}

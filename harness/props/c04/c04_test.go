// Package c04 decides property C04: opening a package written by another producer and saving it
// again (with or without edits in between) is non-destructive.
//
// Input: a generated foreign package (internal/foreign: an independent string-template writer) and a
// generated list of edits executed through the shared op interpreter between Open and Save.
// Oracle: the package before (P) and after (Q) are both read with the harness's own OPC reader and
// XML tree builder and compared clause by clause (N1 pass-through parts byte-identical, N2 same
// content type, N3 relationships keep Id/Type/Target/TargetMode, N4 media neither overwritten nor
// renamed, N5 text of every w:t under w:body kept). Nothing of pkg/document is used to judge.
package c04

import (
	"bytes"
	"fmt"
	"io"
	"os"
	"path/filepath"
	"sort"
	"strings"
	"testing"

	"github.com/zerx-lab/wordZero/pkg/document"
	"github.com/zerx-lab/wordZero/pkg/style"
	"pgregory.net/rapid"

	"wzverif/internal/canon"
	"wzverif/internal/foreign"
	"wzverif/internal/gen"
	"wzverif/internal/kit"
	"wzverif/internal/opc"
	"wzverif/internal/ops"
)

func TestMain(m *testing.M) {
	document.SetGlobalLevel(document.LogLevelSilent)
	kit.TestMain(m, 1400, 18000)
}

// Case is one generated input: the foreign package, the edits between open and save, the entry points.
type Case struct {
	Pkg      foreign.Package `json:"pkg"`
	Ops      []ops.Op        `json:"ops,omitempty"`
	OpenFile bool            `json:"open_file,omitempty"` // Open(path) instead of OpenFromMemory
	SaveFile bool            `json:"save_file,omitempty"` // Save(path) instead of ToBytes
	// TextForms names the extra parts whose XML text was re-spelled and how ("footnotes:crlf"); informative (labels),
	// the re-spelled text itself is in Pkg.Parts[i].XML
	TextForms []string `json:"text_forms,omitempty"`
	// TSpell: character data of some w:t of the main part written in several pieces (CDATA section, comment or
	// processing instruction inside the text), applied to the rendered main part (spelling.go)
	TSpell []TSpell `json:"tspell,omitempty"`
	// EmptyParts names the notes / numbering / comments parts that consist of a root element without children and how
	// the root is written ("endnotes:self-closed"); informative (labels), the text itself is in Pkg.Parts[i].XML
	EmptyParts []string `json:"empty_parts,omitempty"`
}

// edit ops: what the design lists (append paragraph/heading/table, images, header/footer, list item,
// note, page settings, document properties, remove paragraph, template render with no data), plus
// an intermediate save and a second open.
var editWeights = map[string]int{
	"para": 6, "fpara": 3, "heading": 3, "addtext": 2, "table": 3, "celltext": 1, "pagebreak": 1,
	"image": 7, "imagefile": 2, "cellimg": 2,
	"header": 2, "footer": 2, "headerpn": 1, "footerpn": 1, "fheader": 1, "ffooter": 1, "difffirst": 1,
	"listitem": 2, "bullet": 1, "numbered": 1, "footnote": 2, "endnote": 1, "notecfg": 1,
	"pagesize": 1, "orient": 1, "margins": 1, "custompage": 1,
	"props": 1, "title": 1, "author": 1,
	"rmpara": 1, "rmparaat": 1, "rmelemat": 1,
	"save": 2, "reopen": 2, "tpldoc": 1,
	"pstyle": 4, "customstyle": 2,
}

var cfg = &ops.Config{Classes: gen.Expressible, Weights: editWeights, StyleIDs: []string{"Normal", "Heading1", "Heading2", "Title", "Quote", "NoSuchStyle"}}

// style-manager lookups a caller may do on an opened document; executed by this package (the shared
// interpreter has no such kinds): they read, so they must not change anything in the saved package.
var lookupKinds = []string{"smexists", "smget", "small", "sminherit", "smquick", "smquickall"}

func isLookup(k string) bool { return strings.HasPrefix(k, "sm") }

func doLookup(d *document.Document, o ops.Op) {
	id := "Normal"
	if len(o.S) > 0 {
		id = o.S[0]
	}
	sm := d.GetStyleManager()
	if sm == nil {
		return
	}
	switch o.K {
	case "smexists":
		sm.StyleExists(id)
	case "smget":
		sm.GetStyle(id)
	case "small":
		sm.GetAllStyles()
	case "sminherit":
		sm.GetStyleWithInheritance(id)
	case "smquick":
		style.NewQuickStyleAPI(sm).GetStyleInfo(id)
	case "smquickall":
		style.NewQuickStyleAPI(sm).GetAllStylesInfo()
	}
}

func fmtOfExt(ext string) string {
	switch strings.ToLower(ext) {
	case "jpeg", "jpg":
		return "jpeg"
	case "gif":
		return "gif"
	}
	return "png"
}

// op kinds after which the concatenated body text of P must still be a prefix of Q's: they append to the
// body, act on elements appended earlier, or do not touch the body at all.
var bodyNeutral = map[string]bool{"header": true, "footer": true, "headerpn": true, "footerpn": true, "fheader": true, "ffooter": true, "difffirst": true,
	"notecfg": true, "pagesize": true, "orient": true, "margins": true, "custompage": true, "props": true, "title": true, "author": true, "save": true, "reopen": true, "tpldoc": true,
	"customstyle": true, "smexists": true, "smget": true, "small": true, "sminherit": true, "smquick": true, "smquickall": true,
	"pagesettings": true, "notecfgnil": true, "hfbadtype": true}
var bodyRemoving = map[string]bool{"rmparaat": true, "rmelemat": true}

func genCase(t *rapid.T) Case {
	var pkg foreign.Package
	if rapid.IntRange(0, 39).Draw(t, "longbody") == 0 { // a long body: up to 72 block-level children instead of up to 6
		pkg = foreign.GenOpt(t, foreign.Opt{MaxBlocks: 72})
	} else {
		pkg = foreign.Gen(t)
	}
	c := Case{Pkg: pkg, OpenFile: rapid.Bool().Draw(t, "openfile"), SaveFile: rapid.Bool().Draw(t, "savefile")}
	// a picture-rich package: media named image<N> with N past one digit (image9 next to image10, image99 next to
	// image100, numbers kept after deletions), ten and more pictures (sometimes past 16 / 32 / 64), counting from 0 or 1
	numbered := rapid.IntRange(0, 7).Draw(t, "nummedia") == 0
	if numbered {
		foreign.AddNumberedMedia(t, &c.Pkg)
	}
	// a document of many sections: header1..headerN / footer1..footerN with N past one digit, sometimes parts called
	// headerfirst.xml / footereven.xml (the names the library itself would choose)
	manyHF := rapid.IntRange(0, 15).Draw(t, "manyhf") == 0
	if manyHF {
		foreign.AddHeaderFooterFamily(t, &c.Pkg)
	}
	// inline OMML formulas between the runs of some paragraphs (a sentence with a formula in it): the text
	// carried by the runs next to a formula is body text like any other
	if rapid.SampledFrom([]bool{false, true, false}).Draw(t, "math") {
		foreign.AddMath(t, &c.Pkg)
	}
	// notes / numbering / comments parts that hold nothing: the root element alone, self-closed or as an empty pair
	if rapid.IntRange(0, 2).Draw(t, "emptyparts") == 0 {
		c.EmptyParts = genEmptyParts(t, &c.Pkg)
	}
	// the text of some w:t written in several pieces: CDATA section, comment, processing instruction inside the text
	if rapid.IntRange(0, 3).Draw(t, "tspell") == 0 {
		c.TSpell = genTSpell(t)
	}
	if rapid.SampledFrom([]bool{false, true, true, false, true}).Draw(t, "edits") { // empty in 40 % of the cases
		c.Ops = cfg.History(t, 1, kit.Scale(8, 14))
		if rapid.IntRange(0, 2).Draw(t, "imgtail") == 0 { // several pictures in a row: the image counter matters
			n := rapid.IntRange(1, 3).Draw(t, "nimgtail")
			if rapid.IntRange(0, 11).Draw(t, "longimgtail") == 0 { // ten and more new pictures in one session
				n = rapid.IntRange(9, 12).Draw(t, "nlongimgtail")
			}
			for i := 0; i < n; i++ {
				c.Ops = append(c.Ops, cfg.OpOf(t, "image"))
			}
		}
	}
	// style-manager lookups and style use, anywhere in the history (also as the only "edit")
	if rapid.SampledFrom([]bool{false, false, true}).Draw(t, "lookups") {
		n := rapid.IntRange(1, 2).Draw(t, "nlookups")
		for i := 0; i < n; i++ {
			o := ops.Op{K: rapid.SampledFrom(lookupKinds).Draw(t, "lookup"), S: []string{rapid.SampledFrom(cfg.StyleIDs).Draw(t, "lookupid")}}
			at := rapid.IntRange(0, len(c.Ops)).Draw(t, "lookupat")
			c.Ops = append(c.Ops[:at], append([]ops.Op{o}, c.Ops[at:]...)...)
		}
	}
	// questions about notes and lists (note counts, restart of a list that does not exist), anywhere in the history
	if rapid.IntRange(0, 3).Draw(t, "notelookups") == 0 && (len(c.Ops) > 0 || rapid.IntRange(0, 2).Draw(t, "notelookupsonly") == 0) {
		n := rapid.IntRange(1, 2).Draw(t, "nnotelookups")
		for i := 0; i < n; i++ {
			o := ops.Op{K: rapid.SampledFrom(noteLookupKinds).Draw(t, "notelookup")}
			at := rapid.IntRange(0, len(c.Ops)).Draw(t, "notelookupat")
			c.Ops = append(c.Ops[:at], append([]ops.Op{o}, c.Ops[at:]...)...)
		}
	}
	// calls the library may reject (unknown note id, index out of range, bytes that are no image, header/footer type
	// that is none, page settings out of range ...), anywhere in the history, also as the only "edit"
	if rapid.SampledFrom([]bool{false, true}).Draw(t, "locals") {
		n := rapid.IntRange(1, 3).Draw(t, "nlocals")
		needTable := false
		for i := 0; i < n; i++ {
			o := genLocal(t)
			at := rapid.IntRange(0, len(c.Ops)).Draw(t, "localat")
			c.Ops = append(c.Ops[:at], append([]ops.Op{o}, c.Ops[at:]...)...)
			needTable = needTable || o.K == "cellimgbad"
		}
		if needTable { // the cell call aims at a table the history appended itself
			c.Ops = append([]ops.Op{{K: "table", I: []int{2, 2, 0}}}, c.Ops...)
		}
	}
	// the XML text of the extra parts, written the way other producers write it: without declaration, declaration and
	// root on one line, CRLF, byte order mark, white space before the end tag of the root, newline after it
	if rapid.SampledFrom([]bool{false, true, true}).Draw(t, "respell") {
		for i, pt := range c.Pkg.Parts {
			if pt.XML == "" || pt.Img != nil || pt.Raw != nil {
				continue
			}
			if f := rapid.SampledFrom(textForms).Draw(t, "textform"); f != "" {
				if s := respell(pt.XML, f); s != pt.XML {
					c.Pkg.Parts[i].XML = s
					c.TextForms = append(c.TextForms, pt.Kind+":"+f)
				}
			}
		}
	}
	// the package brings header/footer parts of its own (named header<N>.xml / footer<N>.xml like the library's): set a
	// header or footer of some kind after opening, in a third of these cases with the package's header/footer
	// relationships spelled in another legal way than the bare file name
	if c.Pkg.HeaderFooterCount() > 0 && (rapid.SampledFrom([]bool{true, false, false}).Draw(t, "hfextra") || manyHF) {
		if spell := rapid.SampledFrom([]string{"", "", "/word/", "./"}).Draw(t, "hfspell"); spell != "" {
			for i, r := range c.Pkg.DocRels {
				if (r.Type == foreign.RelHeader || r.Type == foreign.RelFooter) && !strings.Contains(r.Target, "/") {
					c.Pkg.DocRels[i].Target = spell + r.Target
				}
			}
		}
		n := rapid.IntRange(1, 2).Draw(t, "nhfextra")
		if manyHF {
			n = rapid.IntRange(1, 4).Draw(t, "nhfextramany")
		}
		for i := 0; i < n; i++ {
			k := rapid.SampledFrom([]string{"header", "footer"}).Draw(t, "hfextrakind")
			c.Ops = append(c.Ops, ops.Op{K: k, I: []int{rapid.IntRange(0, 2).Draw(t, "hfextratype")}, S: []string{"set after open"}})
		}
	}
	// the package has image<K> media that the main part does not relate to, numbered above the main part's own:
	// add pictures (body or cell) of the formats that would be written under exactly those names
	if next, taken := c.Pkg.LibraryImageSlots(); len(taken) > 0 && rapid.SampledFrom([]bool{true, true, true, false}).Draw(t, "slotimgs") {
		last := next
		for k := range taken {
			if k > last {
				last = k
			}
		}
		haveTable := false
		for k := next; k <= last && k < next+4; k++ {
			im := gen.Img{Fmt: fmtOfExt(taken[k]), W: rapid.IntRange(1, 8).Draw(t, "sw"), H: rapid.IntRange(1, 8).Draw(t, "sh"), Pat: rapid.IntRange(0, 1<<20).Draw(t, "spat"), Name: "new." + taken[k]}
			if rapid.IntRange(0, 3).Draw(t, "incell") == 0 {
				if !haveTable {
					c.Ops = append(c.Ops, ops.Op{K: "table", I: []int{2, 2, 0}})
					haveTable = true
				}
				c.Ops = append(c.Ops, ops.Op{K: "cellimg", I: []int{0, 0, 0}, F: []float64{10}, Img: &im})
			} else {
				c.Ops = append(c.Ops, ops.Op{K: "image", Img: &im, I: []int{0, 0, 0, 0}, F: []float64{10, 10}, S: []string{"", "", ""}})
			}
		}
	}
	// the package has media named image<N>: whatever number the library continues with, the pictures added now must not
	// land on one of those names. Add a run of pictures of the formats the existing names have: either all of the format
	// of one of them, or - counting on from one of the existing numbers (or from the number of media, or from 0) - each of
	// the format of the name that a counter standing there would produce next.
	if nm := c.Pkg.NumberedMedia(); len(nm) > 0 && (numbered || rapid.IntRange(0, 5).Draw(t, "aimnumbered") == 0) {
		nums := make([]int, 0, len(nm))
		for k := range nm {
			nums = append(nums, k)
		}
		sort.Ints(nums)
		hi := nums[len(nums)-1]
		limit := rapid.SampledFrom([]int{1, 2, 3, 3, 4, 12}).Draw(t, "naimed")
		var fmts []string
		if rapid.Bool().Draw(t, "aimsame") {
			f := fmtOfExt(nm[rapid.SampledFrom(append(nums, hi)).Draw(t, "aimat")])
			for i := 0; i < limit && i < 4; i++ {
				fmts = append(fmts, f)
			}
		} else {
			starts := []int{0, c.Pkg.MediaCount(), len(nums)}
			for _, k := range nums {
				starts = append(starts, k, k+1)
			}
			from := rapid.SampledFrom(starts).Draw(t, "aimfrom")
			for k := from; k <= hi && len(fmts) < limit; k++ {
				if ext, ok := nm[k]; ok {
					fmts = append(fmts, fmtOfExt(ext))
				} else {
					fmts = append(fmts, rapid.SampledFrom([]string{"png", "jpeg", "gif"}).Draw(t, "aimfill"))
				}
			}
		}
		haveTable := false
		for _, f := range fmts {
			im := gen.Img{Fmt: f, W: rapid.IntRange(1, 8).Draw(t, "aw"), H: rapid.IntRange(7, 9).Draw(t, "ah"), Pat: rapid.IntRange(0, 1<<20).Draw(t, "apat"), Name: "added." + f}
			if rapid.IntRange(0, 4).Draw(t, "aimcell") == 0 {
				if !haveTable {
					c.Ops = append(c.Ops, ops.Op{K: "table", I: []int{2, 2, 0}})
					haveTable = true
				}
				c.Ops = append(c.Ops, ops.Op{K: "cellimg", I: []int{0, 0, 0}, F: []float64{10}, Img: &im})
			} else {
				c.Ops = append(c.Ops, ops.Op{K: "image", Img: &im, I: []int{0, 0, 0, 0}, F: []float64{10, 10}, S: []string{"", "", ""}})
			}
		}
	}
	// a second document object (opened from the same package, a new document, or another package) that is edited and
	// saved while the judged one is in use: its calls are spread over the history, in order
	if rapid.IntRange(0, 5).Draw(t, "otherdoc") == 0 {
		at := 0
		for _, o := range genOther(t) {
			at = rapid.IntRange(at, len(c.Ops)).Draw(t, "odat")
			c.Ops = append(c.Ops[:at], append([]ops.Op{o}, c.Ops[at:]...)...)
			at++
		}
	}
	return c
}

func hfKind(i int) string {
	switch ops.In(i, 3) {
	case 0:
		return "default"
	case 1:
		return "first"
	}
	return "even"
}

// hfParts maps "header:default", "footer:even", ... to the parts of the opened package that some
// section of its main part refers to for that kind (read from the package with the oracle's own readers).
func hfParts(P *opc.Package) map[string][]string {
	out := map[string][]string{}
	root, err := canon.Parse(P.Parts["word/document.xml"])
	if err != nil {
		return out
	}
	byID := map[string]opc.Rel{}
	for _, r := range P.Rels["word/_rels/document.xml.rels"] {
		byID[r.ID] = r
	}
	for _, sp := range root.All(foreign.NSW, "sectPr") {
		for _, k := range sp.Kids {
			if k.Space != foreign.NSW || (k.Local != "headerReference" && k.Local != "footerReference") {
				continue
			}
			r, ok := byID[k.A(foreign.NSR, "id")]
			if !ok || r.External() {
				continue
			}
			key := strings.TrimSuffix(k.Local, "Reference") + ":" + k.A(foreign.NSW, "type")
			out[key] = append(out[key], r.Resolved)
		}
	}
	return out
}

// regenerated returns the parts of the opened package an op rewrites by design (they join the
// regenerated set G): a header/footer call of a kind replaces the definition the package has for
// that kind; list, note, note-configuration and property calls rewrite their part.
func regenerated(o ops.Op, hf map[string][]string) []string {
	i0 := 0
	if len(o.I) > 0 {
		i0 = o.I[0]
	}
	switch o.K {
	case "header", "headerpn", "fheader":
		return hf["header:"+hfKind(i0)]
	case "footer", "footerpn", "ffooter":
		return hf["footer:"+hfKind(i0)]
	case "listitem", "bullet", "numbered":
		return []string{"word/numbering.xml"}
	case "footnote":
		return []string{"word/footnotes.xml"}
	case "endnote":
		return []string{"word/endnotes.xml"}
	case "notecfg":
		return []string{"word/settings.xml"}
	case "props", "title", "author":
		return []string{"docProps/core.xml", "docProps/app.xml"}
	case "customstyle":
		return []string{"word/styles.xml"} // creating a style legitimately rewrites the styles part
	}
	return nil
}

// extendsStyles: edit kinds that refer to a style id and may therefore make the library add the definition of
// that id to the styles part the package came with (never rewrite it).
var extendsStyles = map[string]bool{"heading": true, "headingbm": true, "headingbm2": true, "pstyle": true, "toc": true, "autotoc": true, "updatetoc": true, "tblstyle": true, "tblcustom": true}

// onlyStylesAdded compares the styles part before and after: every child of the root of `before` must still be
// there, in the same order and canonically equal; what was added must be w:style elements whose w:styleId the
// part did not define. Returns "" when that holds, otherwise what differs.
func onlyStylesAdded(before, after []byte) string {
	a, err := canon.Parse(before)
	if err != nil {
		return "" // the input part was not parseable: nothing to demand
	}
	b, err := canon.Parse(after)
	if err != nil {
		return fmt.Sprintf("no longer parseable: %v", err)
	}
	if a.Space != b.Space || a.Local != b.Local {
		return fmt.Sprintf("root changed from %s to %s", a.Name(), b.Name())
	}
	had := map[string]bool{}
	for _, k := range a.Kids {
		if k.Is(foreign.NSW, "style") {
			had[k.A(foreign.NSW, "styleId")] = true
		}
	}
	i := 0
	for _, k := range b.Kids {
		if i < len(a.Kids) && k.String() == a.Kids[i].String() {
			i++
			continue
		}
		if !k.Is(foreign.NSW, "style") {
			return fmt.Sprintf("element %s added or changed (child %d of the original is %s)", k.Name(), i, kidName(a, i))
		}
		if id := k.A(foreign.NSW, "styleId"); had[id] {
			return fmt.Sprintf("style %q of the package was changed or duplicated", id)
		}
	}
	if i < len(a.Kids) {
		return fmt.Sprintf("child %d of the original styles part (%s) is gone or changed", i, kidName(a, i))
	}
	return ""
}

func kidName(n *canon.Node, i int) string {
	if i < len(n.Kids) {
		k := n.Kids[i]
		if id := k.A(foreign.NSW, "styleId"); id != "" {
			return k.Name() + " " + id
		}
		return k.Name()
	}
	return "-"
}

// bodyText returns the concatenation of all w:t under w:body of a main part, in document order.
func bodyText(main []byte) (string, int, error) {
	root, err := canon.Parse(main)
	if err != nil {
		return "", 0, err
	}
	if !root.Is(foreign.NSW, "document") {
		return "", 0, fmt.Errorf("root is %s", root.Name())
	}
	body := root.Kid(foreign.NSW, "body")
	if body == nil {
		return "", 0, fmt.Errorf("no w:body")
	}
	var b strings.Builder
	n := 0
	for _, t := range body.All(foreign.NSW, "t") {
		b.WriteString(t.Text)
		n++
	}
	return b.String(), n, nil
}

func mode(m string) string {
	if m == "" {
		return "Internal"
	}
	return m
}

func clip(s string) string {
	if len(s) > 120 {
		return s[:120] + "…"
	}
	return s
}

func run(c Case) *kit.Result {
	res := &kit.Result{}
	document.VerifResetGlobals()
	dir, _ := os.MkdirTemp(kit.Scratch, "c04-")
	defer os.RemoveAll(dir)

	feats := append(c.Pkg.Features(), c.Pkg.MathFeatures()...)
	has := map[string]bool{} // the features, computed once (Package.Has renders every media part on each call)
	for _, f := range feats {
		has[f] = true
	}
	for _, f := range feats {
		res.Label("pkg:" + f)
	}
	for _, r := range c.Pkg.DocRels {
		if strings.HasPrefix(r.Target, "./") {
			res.Label("pkg:rel:dot-slash-target")
			break
		}
	}
	if nm := c.Pkg.NumberedMedia(); len(nm) > 0 {
		hi := -1
		for k := range nm {
			if k > hi {
				hi = k
			}
		}
		if hi >= 10 {
			res.Label("pkg:media:number>=10")
			for k := range nm {
				if k < hi && fmt.Sprint(k) > fmt.Sprint(hi) {
					res.Label("pkg:media:lower-number-sorts-after-highest") // image9 next to image10
					break
				}
			}
		}
		if hi >= 100 {
			res.Label("pkg:media:number>=100")
		}
	}
	if n := c.Pkg.MediaCount(); n >= 10 {
		res.Label("pkg:media:count>=10")
		if n >= 17 {
			res.Label("pkg:media:count>=17")
		}
	}
	for _, tf := range c.TextForms {
		res.Label("pkg:text:" + tf[strings.Index(tf, ":")+1:])
		res.Label("pkg:text:respelled")
	}
	for _, ep := range c.EmptyParts {
		res.Label("pkg:empty-root:" + ep[:strings.Index(ep, ":")])
		res.Label("pkg:empty-root:" + ep[strings.Index(ep, ":")+1:])
		res.Label("pkg:empty-root")
	}
	pb, spelled := render(c) // == Pkg.BytesMath() (== Bytes() for a package without formulas) unless some w:t is re-spelled
	for _, f := range spelled {
		res.Label("pkg:t-spelling:" + f)
		res.Label("pkg:t-spelling")
	}
	P, err := opc.Read(pb)
	if err != nil || P.CTErr != nil {
		res.Fail("C04.gen", "generated package unreadable by the oracle's reader: %v %v", err, P)
		return res
	}

	// ---- open
	var doc *document.Document
	var oerr error
	p, st := kit.Try(func() {
		if c.OpenFile {
			path := filepath.Join(dir, "in.docx")
			if e := os.WriteFile(path, pb, 0o644); e != nil {
				oerr = fmt.Errorf("scratch: %w", e)
				return
			}
			doc, oerr = document.Open(path)
		} else {
			doc, oerr = document.OpenFromMemory(io.NopCloser(bytes.NewReader(pb)))
		}
	})
	res.Eval("C04.N0")
	if p != nil {
		res.Fail("C04.N0", "open panicked: %v [%s]", p, st)
		return res
	}
	if oerr != nil || doc == nil {
		// the property speaks about packages that were opened; a refusal loses nothing
		res.Label("open-error")
		res.Count("open_errors", 1)
		return res
	}

	// ---- edits
	x := ops.NewExec(dir)
	x.Doc = doc
	G := map[string]bool{"word/document.xml": true, "[Content_Types].xml": true, "_rels/.rels": true, "word/_rels/document.xml.rels": true}
	Ext := map[string]bool{} // parts an op may EXTEND (definitions added), everything they held must stay
	oldP := map[*document.Paragraph]bool{}
	oldT := map[*document.Table]bool{}
	markOld := func() {
		for k := range oldP {
			delete(oldP, k)
		}
		for k := range oldT {
			delete(oldT, k)
		}
		if x.Doc != nil && x.Doc.Body != nil {
			for _, q := range x.Doc.Body.GetParagraphs() {
				oldP[q] = true
			}
			for _, q := range x.Doc.Body.GetTables() {
				oldT[q] = true
			}
		}
		x.Paras, x.Tables, x.Images = nil, nil, nil
	}
	markOld()
	hf := hfParts(P)
	n5 := "equal"
	var shape []string
	imagesAdded := 0
	rejected := 0
	var accepted []ops.Op // the calls the library accepted, in order: only these are edits
	od := &otherDoc{P: P, pkgBytes: pb}
	for i, op := range c.Ops {
		res.Label("op:" + op.K)
		replaced := x.Replaced
		var e error
		p, st := kit.Try(func() {
			switch {
			case isLookup(op.K):
				doLookup(x.Doc, op)
			case isNoteLookup(op.K):
				doNoteLookup(x, op)
			case isLocal(op.K):
				e = doLocal(x, op)
			case isOther(op.K):
				e = od.do(op)
			default:
				e = x.Do(op)
			}
		})
		if p != nil {
			res.Fail("C04.N0", "op %d %s panicked: %v [%s]", i, op.K, p, st)
			res.Nontrivial, res.Shape = true, "panic"
			return res
		}
		if e != nil && op.K == "reopen" && strings.Contains(e.Error(), "reopen of own output failed") {
			res.Fail("C04.N0", "op %d: the re-saved package cannot be opened again: %v", i, e)
			return res
		}
		out := "ok"
		switch {
		case e == errNoTarget:
			out = "none"
		case e != nil:
			out = "err"
		}
		shape = append(shape, op.K+":"+out)
		switch out {
		case "ok":
			// an accepted call is an edit: what it rewrites by design joins the regenerated set
			accepted = append(accepted, op)
			for _, g := range regenerated(op, hf) {
				G[g] = true
			}
			for _, g := range regeneratedLocal(op, hf) {
				G[g] = true
			}
			if extendsStyles[op.K] {
				Ext["word/styles.xml"] = true
			}
			switch {
			case bodyRemoving[op.K]:
				n5 = "skip"
			case !bodyNeutral[op.K] && n5 == "equal":
				n5 = "prefix"
			}
		case "err":
			// a rejected call is no edit: nothing joins the regenerated set, no new part is explained by it and a
			// rejected removal removes nothing, so the text clause stays in force. (A rejected call that appends is
			// not held to "equal": the statement speaks of text that is lost.)
			res.Label("rejected:" + op.K)
			rejected++
			if !bodyNeutral[op.K] && !bodyRemoving[op.K] && n5 == "equal" {
				n5 = "prefix"
			}
		}
		x.Saves = nil
		if x.Replaced != replaced {
			markOld() // a new document object: everything in it counts as existing content
		} else {
			// edits act on what they appended, never on content that came with the package
			ps := x.Paras[:0]
			for _, q := range x.Paras {
				if !oldP[q] {
					ps = append(ps, q)
				}
			}
			x.Paras = ps
			ts := x.Tables[:0]
			for _, q := range x.Tables {
				if !oldT[q] {
					ts = append(ts, q)
				}
			}
			x.Tables = ts
		}
	}
	if rejected > 0 {
		res.Label("edits:some-rejected")
		if len(accepted) == 0 {
			res.Label("edits:all-rejected")
		}
		if has[foreign.FNotes] && hasOp(c, "rmfootnote", "rmendnote") {
			res.Label("edits:note-removal-on-package-with-notes")
		}
	}
	if od.doc != nil {
		res.Label("edits:second-document-object")
		if od.samePkg {
			res.Label("edits:second-document-object-of-same-package")
		}
	}
	if n := c.Pkg.HeaderFooterCount(); n >= 10 {
		res.Label("pkg:header-footer-parts>=10")
		if hasOp(c, "header", "footer", "headerpn", "footerpn", "fheader", "ffooter") {
			res.Label("edits:header-footer-set-on-package-with>=10")
		}
	}
	if len(c.Pkg.Body) > 16 {
		res.Label("pkg:body-children>16")
		if len(c.Pkg.Body) > 64 {
			res.Label("pkg:body-children>64")
		}
	}
	if len(c.Pkg.DocRels) >= 10 {
		res.Label("pkg:main-relationships>=10")
	}
	if countOps(c, "odopen", "odimage", "odpara", "odheader", "odsave") == len(c.Ops) { // calls on the other object are no edits of this one
		res.Label("edits:none")
	} else {
		res.Label("edits:some")
	}
	res.Label("n5:" + n5)

	// ---- save
	var qb []byte
	var serr error
	p, st = kit.Try(func() {
		if c.SaveFile {
			path := filepath.Join(dir, "out", "saved.docx")
			if serr = x.Doc.Save(path); serr == nil {
				qb, serr = os.ReadFile(path)
			}
		} else {
			qb, serr = x.Doc.ToBytes()
		}
	})
	if p != nil {
		res.Fail("C04.N0", "save panicked: %v [%s]", p, st)
		return res
	}
	if serr != nil {
		res.Label("save-error")
		res.Count("save_errors", 1)
		return res
	}
	Q, err := opc.Read(qb)
	if err != nil {
		res.Fail("C04.N1", "saved package is not a readable zip: %v", err)
		return res
	}

	for _, name := range Q.SortedNames() {
		if _, had := P.Parts[name]; !had && strings.HasPrefix(name, "word/media/") {
			imagesAdded++
		}
	}
	if imagesAdded > 0 {
		res.Label("edits:images-added")
		if imagesAdded >= 9 {
			res.Label("edits:images-added>=9")
		}
		for k := range c.Pkg.NumberedMedia() {
			if k >= 10 {
				res.Label("edits:images-added-to-package-with-media-numbered>=10")
				break
			}
		}
		if has[foreign.FMediaOtherHighest] {
			res.Label("edits:images-added-below-other-parts-media")
		}
	}
	for _, op := range c.Ops {
		if isLookup(op.K) {
			res.Label("edits:style-lookup")
			break
		}
	}
	if has[foreign.FHeaderFooter] && hasOp(c, "header", "footer", "headerpn", "footerpn", "fheader", "ffooter") {
		res.Label("edits:header-footer-set-on-package-with-own")
	}

	// ---- N1: parts outside the regenerated set are written back byte for byte under the same name
	res.Eval("C04.N1")
	for _, name := range P.SortedNames() {
		if G[name] {
			continue
		}
		got, ok := Q.Parts[name]
		if ok && Ext[name] && !bytes.Equal(got, P.Parts[name]) {
			// a call that refers to a style (heading, paragraph style, TOC) may add the definitions the
			// package lacks; nothing the part held may change or go
			res.Eval("C04.N1.extended")
			if d := onlyStylesAdded(P.Parts[name], got); d != "" {
				res.Fail("C04.N1.extended", "part %q: %s", name, d)
			}
			res.Label("n1:styles-part-extended")
			continue
		}
		switch {
		case !ok:
			res.Fail("C04.N1", "part %q of the opened package is missing after save", name)
		case !bytes.Equal(got, P.Parts[name]):
			res.Fail("C04.N1", "part %q changed: %d bytes before, %d after", name, len(P.Parts[name]), len(got))
		}
	}
	// ---- N1.new: a part that was not in the opened package is there because an ACCEPTED call creates it (a picture
	// its media part, a header/footer call its part, a list call the numbering part, ...) or because the library writes
	// it into every package it saves; a rejected call leaves no part behind
	res.Eval("C04.N1.new")
	for _, name := range Q.SortedNames() {
		if _, had := P.Parts[name]; had {
			continue
		}
		if why := newPartExplained(name, P, Q, accepted, Ext); why == "" {
			ct, hasCT := Q.ContentTypeOf(name)
			res.Fail("C04.N1.new", "part %q is in the saved package but not in the opened one, and no accepted call of the history creates such a part (calls: %s; content type after save: %q declared=%v; related from: %s)",
				name, strings.Join(shape, ","), ct, hasCT, relatedFrom(Q, name))
		}
	}
	// ---- N2: same content type
	res.Eval("C04.N2")
	if Q.CTErr != nil {
		res.Fail("C04.N2.ctpart", "content-types part of the saved package: %v", Q.CTErr)
	} else {
		for _, name := range P.SortedNames() {
			if name == "[Content_Types].xml" {
				continue
			}
			if _, ok := Q.Parts[name]; !ok {
				continue // N1 speaks about missing parts
			}
			before, okb := P.ContentTypeOf(name)
			after, oka := Q.ContentTypeOf(name)
			if okb != oka || before != after {
				res.Fail("C04.N2", "part %q: content type %q before, %q after", name, before, after)
			}
		}
	}
	// ---- N3: every relationship keeps Id, Type, Target and TargetMode
	res.Eval("C04.N3")
	relNames := make([]string, 0, len(P.Rels))
	for n := range P.Rels {
		relNames = append(relNames, n)
	}
	sort.Strings(relNames)
	for _, rn := range relNames {
		if _, ok := Q.Parts[rn]; !ok {
			if G[rn] {
				res.Fail("C04.N3.lost", "relationship part %q is missing after save", rn)
			}
			continue // outside G: N1 reports the missing part
		}
		if e := Q.RelErr[rn]; e != nil {
			res.Fail("C04.N3.relpart", "relationship part %q unreadable after save: %v", rn, e)
			continue
		}
		after := map[string][]opc.Rel{}
		for _, r := range Q.Rels[rn] {
			after[r.ID] = append(after[r.ID], r)
		}
		for _, r := range P.Rels[rn] {
			cands := after[r.ID]
			if len(cands) == 0 {
				res.Fail("C04.N3.lost", "%s: relationship Id=%q Type=…/%s Target=%q is gone after save", rn, r.ID, typeTail(r.Type), r.Target)
				continue
			}
			if len(cands) > 1 {
				res.Fail("C04.N3.unique", "%s: Id=%q names %d relationships after save (it named one …/%s before)", rn, r.ID, len(cands), typeTail(r.Type))
			}
			// the relationship that kept the id must be found unchanged among the candidates; report the closest one
			same := false
			var diff string
			best := -1
			for _, q := range cands {
				score, d := 0, ""
				if mode(q.Mode) == mode(r.Mode) {
					score++
				} else {
					d = fmt.Sprintf("TargetMode %q -> %q", mode(r.Mode), mode(q.Mode))
				}
				if q.Target == r.Target {
					score += 2
				} else {
					d = fmt.Sprintf("Target %q -> %q", r.Target, q.Target)
				}
				if q.Type == r.Type {
					score += 4
				} else {
					d = fmt.Sprintf("Type %q -> %q", r.Type, q.Type)
				}
				if score > best {
					best, diff = score, d
				}
				if score == 7 {
					same = true
				}
			}
			if !same {
				clause := "C04.N3.changed"
				if strings.HasPrefix(diff, "TargetMode") {
					clause = "C04.N3.mode"
				}
				res.Fail(clause, "%s: relationship Id=%q (…/%s): %s", rn, r.ID, typeTail(r.Type), diff)
			}
		}
	}
	// ---- N4: media neither overwritten nor renamed
	res.Eval("C04.N4")
	for _, name := range P.SortedNames() {
		ct, _ := P.ContentTypeOf(name)
		if !strings.HasPrefix(ct, "image/") {
			continue
		}
		got, ok := Q.Parts[name]
		switch {
		case ok && bytes.Equal(got, P.Parts[name]):
		case ok:
			res.Fail("C04.N4", "media part %q was overwritten (%d bytes before, %d after; %d new media part(s) after the edits)", name, len(P.Parts[name]), len(got), imagesAdded)
		default:
			where := ""
			for _, qn := range Q.SortedNames() {
				if bytes.Equal(Q.Parts[qn], P.Parts[name]) {
					where = qn
				}
			}
			res.Fail("C04.N4", "media part %q is gone after save (same bytes now under %q)", name, where)
		}
	}
	od.report(res)
	// ---- N5: text carried by runs
	items, perr := bodyItems(P.Parts["word/document.xml"])
	if perr != nil {
		res.Fail("C04.gen", "generated main part unreadable: %v", perr)
		return res
	}
	tp := concat(items)
	if len(spelled) > 0 {
		// the re-spelled main part must carry the text the writer's own spelling carries
		plain, e := bodyItems(c.Pkg.DocumentXMLMath())
		if e != nil || concat(plain) != tp || len(plain) != len(items) {
			res.Fail("C04.gen", "re-spelling the character data changed the text the main part carries: %q vs %q (%v)", clip(concat(plain)), clip(tp), e)
			return res
		}
	}
	if n5 == "skip" {
		res.Count("n5_skipped_removal", 1)
	} else {
		res.Eval("C04.N5")
		tq, ntq, qerr := bodyText(Q.Parts["word/document.xml"])
		if qerr != nil {
			res.Fail("C04.N5.other", "main part of the saved package cannot be read: %v", qerr)
		} else {
			how := "no edits, the text under w:body must be unchanged"
			if n5 == "prefix" {
				how = "the edits only appended, the text of the opened package must be a prefix of the saved text"
			}
			// strict document order: text that moved is lost at its place
			_, loss := textLoss(items, tq, n5 == "equal", openCats())
			for _, cat := range loss {
				if cat == "other" {
					res.Fail("C04.N5.other", "%s: %d w:t / %q before, %d w:t / %q after; not explained by losing only nested / multi-w:t text%s%s", how, len(items), clip(tp), ntq, clip(tq), lostHint(c.Pkg, tq), orderHint(tp, tq, n5 == "equal"))
				} else {
					res.Fail("C04.N5."+cat, "%s, but text of w:t in class %s is lost (%s): %d w:t / %q before, %d w:t / %q after", how, cat, firstOf(items, cat), len(items), clip(tp), ntq, clip(tq))
				}
			}
		}
	}

	// ---- evidence
	extra := c.Pkg.ExtraParts()
	special := false
	for _, f := range feats {
		switch f {
		case foreign.FExtRel, foreign.FHyperlink, foreign.FSmartTag, foreign.FIns, foreign.FInlineSdt, foreign.FMultiT, foreign.FMediaOddName, foreign.FIDsGapped, foreign.FIDsNamed:
			special = true
		}
	}
	if has[foreign.FHyperlink] || has[foreign.FSmartTag] || has[foreign.FIns] || has[foreign.FInlineSdt] {
		res.Label("feat:nested-run")
	}
	if has[foreign.FIDsGapped] || has[foreign.FIDsNamed] {
		res.Label("feat:non-dense-ids")
	}
	if has[foreign.FPrefixCustom] || has[foreign.FPrefixDefault] {
		res.Label("feat:custom-prefix")
	}
	res.Nontrivial = extra >= 2 && special
	res.Shape = strings.Join(feats, ",") + "|" + strings.Join(shape, ",") + fmt.Sprintf("|%v%v", c.OpenFile, c.SaveFile)
	return res
}

// openCats are the nesting classes whose known finding is listed open (KNOWN_FINDINGS.txt is read once).
var openCatsCache map[string]bool

func openCats() map[string]bool {
	if openCatsCache == nil {
		open := kit.OpenFindings("C04")
		openCatsCache = map[string]bool{catMultiT: open[kfMultiT], catInline: open[kfInline], catBlockSdt: open[kfBlockSdt], catNestedTbl: open[kfNestedTbl]}
	}
	return openCatsCache
}

func typeTail(t string) string { return t[strings.LastIndex(t, "/")+1:] }

// lostHint names the first w:t of the package description whose text is missing at its place in the
// saved text (diagnostics only; the verdict above does not depend on it).
func lostHint(p foreign.Package, after string) string {
	pos := 0
	for _, t := range p.Texts() {
		if t.Text == "" {
			continue
		}
		if strings.HasPrefix(after[pos:], t.Text) {
			pos += len(t.Text)
			continue
		}
		return fmt.Sprintf(" [first loss: w:t %d of %d in a run at %s, text %q]", t.Idx+1, t.NT, t.Path, clip(t.Text))
	}
	return ""
}

// libraryOwn: parts the library writes into every package it saves when the package lacks them (its regenerated
// set for a package without them): a document always gets a styles part.
var libraryOwn = map[string]bool{"word/styles.xml": true}

// newPartExplained says why a part of the saved package that the opened one did not have may be there ("" = no reason).
func newPartExplained(name string, P, Q *opc.Package, accepted []ops.Op, ext map[string]bool) string {
	if opc.IsRelsPart(name) {
		// the relationship part of a part: explained when its source is a new part that is explained itself, or a
		// part of the regenerated core (main part / package)
		src := opc.SourceOf(name)
		if src == "" || src == "word/document.xml" {
			return "relationships of the core"
		}
		if _, had := P.Parts[src]; !had {
			if _, has := Q.Parts[src]; has && newPartExplained(src, P, Q, accepted, ext) != "" {
				return "relationships of an explained new part"
			}
		}
		return ""
	}
	if libraryOwn[name] {
		return "written by the library into every package"
	}
	for _, op := range accepted {
		if explainsNew(op, name) {
			return "created by " + op.K
		}
	}
	return ""
}

// relatedFrom lists the relationship parts of the saved package that have a relationship resolving to the part.
func relatedFrom(Q *opc.Package, name string) string {
	var from []string
	for rn, rels := range Q.Rels {
		for _, r := range rels {
			if !r.External() && r.Resolved == name {
				from = append(from, rn+"#"+r.ID)
			}
		}
	}
	sort.Strings(from)
	if len(from) == 0 {
		return "nowhere"
	}
	return strings.Join(from, " ")
}

func TestC04(t *testing.T) {
	kit.Main(t, kit.Spec[Case]{
		ID: "C04", Level: "exploration",
		Rule: "a generated foreign package (independent writer: namespace prefixes, extra parts with own relationship parts, external relationships, id shapes, media names, nested runs, multi-w:t runs, tables, section breaks; in a third of the packages inline OMML formulas - m:oMath / m:oMathPara, one or two per paragraph, between the text runs or inside a run container, m: or another prefix declared on the document element or on the formula) x an edit history between Open/OpenFromMemory and Save/ToBytes: none (about 10 %), or 1-8 (thorough 1-14) generated edit calls, optionally read-only style-manager lookups, header/footer calls on packages that bring header/footer parts (their relationship targets also spelled /word/x or ./x), and - when the package holds image<K> media that the main part does not relate to - pictures of the formats that a counter looking only at the main part would write under those names; in half of the cases 1-3 calls the library may reject, anywhere in the history (RemoveFootnote/RemoveEndnote with ids the package has or lacks, RemoveParagraphAt/RemoveElementAt inside and outside the body, AddImageFromFile of a missing file / a file that is no image, AddCellImageFromData / AddImageFromData with bytes that are no image, header/footer calls with a type that is none of default/first/even, SetPageSettings with nil / out-of-range / valid settings, CreateMultiLevelList, SetFootnoteConfig(nil)); in two thirds of the packages the XML text of extra parts is re-spelled (no declaration, declaration and root on one line, CRLF, byte order mark, white space before the root's end tag, newline after it); in an eighth of the packages a family of media named image<N> with N past one digit (image1..image10-13, rarely ..17/33/65; image9|image10, image99|image100 and the like; 2-5 numbers from 0..130) followed by 1-4 (rarely 12) pictures of the formats those names have; in a sixteenth header1..headerN / footer1..footerN with N = 10..17 followed by 1-4 header/footer calls; one package in forty with a long body (up to 72 block-level children); in a sixth of the cases a second document object (same package, new document, other package) that receives calls alternating with those on the judged document; in a quarter of the packages the character data of 1-3 w:t written in several pieces (CDATA section around part or all of the text, two CDATA sections, a comment or processing instruction inside the text); in a third of the packages notes / numbering / comments parts that are a root element without children (self-closed, self-closed with a blank, empty start/end pair), an empty endnotes part added to packages that have none; in a quarter of the cases 1-2 questions that edit nothing (GetFootnoteCount, GetEndnoteCount, RestartNumbering of a list id nobody has); " +
			"non-trivial = package has >= 2 extra parts and at least one of {external relationship, run nested in hyperlink/ins/smartTag/sdt, run with several w:t, media name the library would not choose, relationship ids that are not the dense rId1..N}; " +
			"distinct = distinct (feature set of the package, sequence of (op kind, outcome), entry points)",
		Gen: genCase, Run: run, Findings: findings, Fixed: fixedCases,
		Assumptions: []string{
			"the generated packages are well-formed and self-consistent (self-test of internal/foreign: own OPC reader, own well-formedness checker, description == rendered bytes)",
			"only a call the library ACCEPTED (no error / true) is an edit: a rejected call puts nothing into the regenerated set, explains no new part, and a rejected removal does not suspend the text clause",
			"a part of the saved package that the opened one lacks must be one an accepted call creates (media for a picture call, header/footer part for a header/footer call, numbering for a list call, the notes part for a note call, settings for the note configuration, docProps for a property call) or word/styles.xml, which the library writes into every package that has none",
			"parts an accepted edit rewrites by design (the header/footer part the package's sections reference for the kind that is set, numbering after a list call, footnotes/endnotes after a note call, settings after SetFootnoteConfig, docProps after a properties call) join the regenerated set and are not compared",
			"the edits never touch content that came with the package, except an ACCEPTED RemoveParagraphAt/RemoveElementAt, after which the text clause is not evaluated; the text clause demands strict document order (text that moved is lost at its place)",
			"a refused Open or a failed Save loses nothing and is counted, not judged",
			"a CDATA section, a comment or a processing instruction inside the character data of a w:t does not change the text the run carries (XML infoset); GetFootnoteCount / GetEndnoteCount / RestartNumbering of an id that does not exist are questions, not edits",
			"calls on a second document object are no edits of the judged document; when the second object was opened from the same package, the media of the package are held to N4 in its output too",
		},
		MustSee: map[string]float64{"pkg:" + foreign.FExtRel: 0.05, "feat:nested-run": 0.05, "pkg:" + foreign.FMultiT: 0.05, "pkg:" + foreign.FMediaOddName: 0.05,
			"feat:non-dense-ids": 0.05, "edits:some": 0.5, "feat:custom-prefix": 0.1, "edits:images-added": 0.1,
			"pkg:" + foreign.FMediaOtherHighest: 0.15, "edits:images-added-below-other-parts-media": 0.1, "edits:style-lookup": 0.15, "op:pstyle": 0.02, "op:customstyle": 0.01,
			"pkg:" + foreign.FMathTopTextOne: 0.1, "pkg:" + foreign.FMathTextTwo: 0.03, "pkg:" + foreign.FMathOnly: 0.05, "pkg:" + foreign.FMathPara: 0.05,
			"edits:header-footer-set-on-package-with-own": 0.1, "pkg:rel:dot-slash-target": 0.01,
			"pkg:media:number>=10": 0.08, "pkg:media:lower-number-sorts-after-highest": 0.06, "pkg:media:number>=100": 0.005, "pkg:media:count>=10": 0.02, "edits:images-added-to-package-with-media-numbered>=10": 0.06,
			"pkg:header-footer-parts>=10": 0.03, "edits:header-footer-set-on-package-with>=10": 0.03, "pkg:body-children>16": 0.005, "pkg:main-relationships>=10": 0.05, "edits:second-document-object-of-same-package": 0.04,
			"edits:some-rejected": 0.25, "rejected:rmfootnote": 0.1, "rejected:rmendnote": 0.04, "rejected:rmparaat": 0.02, "rejected:rmelemat": 0.02, "rejected:imagefilebad": 0.03, "rejected:pagesettings": 0.02, "rejected:cellimgbad": 0.02, "edits:none": 0.05,
			"edits:note-removal-on-package-with-notes": 0.05, "pkg:text:respelled": 0.3, "pkg:text:crlf": 0.05, "pkg:text:bom": 0.05, "pkg:text:nodecl": 0.05, "pkg:text:nl-before-root-end": 0.05,
			"pkg:t-spelling": 0.12, "pkg:t-spelling:cdata-inside": 0.05, "pkg:t-spelling:cdata2-inside": 0.02, "pkg:t-spelling:comment-inside": 0.02, "pkg:t-spelling:pi-inside": 0.01,
			"pkg:empty-root": 0.1, "pkg:empty-root:self-closed": 0.05, "pkg:empty-root:pair": 0.02, "pkg:empty-root:endnotes": 0.08, "pkg:empty-root:footnotes": 0.01, "pkg:empty-root:numbering": 0.01,
			"op:qfncount": 0.05, "op:qencount": 0.05, "op:qrestartnone": 0.05},
	})
}

package c04

import (
	"encoding/json"
	"fmt"
	"os"
	"regexp"
	"sort"
	"strconv"
	"strings"
	"testing"

	"pgregory.net/rapid"
)

// TestSurvey (VERIF_SURVEY=n) tallies the failures of n generated cases by clause and detail pattern,
// attributed or not. A development aid: it never fails.
func TestSurvey(t *testing.T) {
	n, _ := strconv.Atoi(os.Getenv("VERIF_SURVEY"))
	if n == 0 {
		t.Skip()
	}
	num := regexp.MustCompile(`"(?:\\.|[^"\\])*"|\d+`)
	tally := map[string]int{}
	example := map[string]string{}
	unattr := 0
	g := rapid.Custom(genCase)
	for i := 0; i < n; i++ {
		c := g.Example(i)
		res := run(c)
		for _, f := range res.Failures {
			att := ""
			for _, kf := range findings {
				if len(f.Clause) >= len(kf.Clause) && f.Clause[:len(kf.Clause)] == kf.Clause && kf.Trigger(c, f) {
					att = kf.ID
					break
				}
			}
			if att == "" {
				unattr++
			}
			d := num.ReplaceAllString(f.Detail, "#")
			if i := strings.Index(f.Detail, "[first loss"); i >= 0 {
				h := f.Detail[i:]
				if j := strings.Index(h, ", text"); j > 0 {
					h = h[:j]
				}
				d = d[:20] + " " + h
			} else if f.Clause == "C04.N5" {
				d = d[:20] + " (no loss hint)"
			}
			if len(d) > 110 {
				d = d[:110]
			}
			k := fmt.Sprintf("%-16s %-22s %s", f.Clause, att, d)
			tally[k]++
			if _, ok := example[k]; !ok || att == "" {
				js, _ := json.Marshal(c)
				example[k] = f.Detail + "\n      " + string(js)
			}
		}
	}
	keys := make([]string, 0, len(tally))
	for k := range tally {
		keys = append(keys, k)
	}
	sort.Strings(keys)
	for _, k := range keys {
		fmt.Printf("%5d %s\n", tally[k], k)
		if os.Getenv("VERIF_SURVEY_EX") != "" {
			e := example[k]
			if len(e) > 2500 {
				e = e[:2500]
			}
			fmt.Printf("      e.g. %s\n", e)
		}
	}
	fmt.Printf("unattributed failures: %d in %d cases\n", unattr, n)
}

// TestWriteWitnesses (VERIF_WRITE_WITNESSES=1) writes the minimal case of every known finding to
// replays/kf and checks that it fails exactly the finding's clause.
func TestWriteWitnesses(t *testing.T) {
	if os.Getenv("VERIF_WRITE_WITNESSES") == "" {
		t.Skip()
	}
	for _, kf := range findings {
		if only := os.Getenv("VERIF_WRITE_WITNESSES"); only != "1" && only != kf.ID {
			continue // VERIF_WRITE_WITNESSES=<KF id> writes one witness only
		}
		c, ok := witnesses()[kf.ID]
		if !ok {
			t.Errorf("no witness for %s", kf.ID)
			continue
		}
		res := run(c)
		hit := false
		for _, f := range res.Failures {
			if strings.HasPrefix(f.Clause, kf.Clause) && kf.Trigger(c, f) {
				hit = true
				fmt.Printf("%s: %s: %s\n", kf.ID, f.Clause, f.Detail)
			} else {
				other := false
				for _, o := range findings {
					if strings.HasPrefix(f.Clause, o.Clause) && o.Trigger(c, f) {
						other = true
					}
				}
				if !other {
					t.Errorf("%s: witness also fails %s (unattributed): %s", kf.ID, f.Clause, f.Detail)
				}
			}
		}
		if !hit {
			t.Errorf("%s: witness does not reproduce", kf.ID)
		}
		js, _ := json.MarshalIndent(c, "", " ")
		if err := os.WriteFile("/verif/replays/kf/"+kf.ID+".json", js, 0o644); err != nil {
			t.Error(err)
		}
	}
}

package c04

import (
	"os"

	"wzverif/internal/foreign"
	"wzverif/internal/gen"
	"wzverif/internal/ops"
)

func run1(text string) foreign.Inline {
	return foreign.Inline{K: "r", Run: &foreign.Run{Pieces: []foreign.Piece{{K: "t", Text: text}}}}
}

func para(in ...foreign.Inline) foreign.Block { return foreign.Block{K: "p", Inlines: in} }

const themeCT = "application/vnd.openxmlformats-officedocument.theme+xml"
const themeXML = `<?xml version="1.0" encoding="UTF-8" standalone="yes"?>` + "\n" + `<a:theme xmlns:a="http://schemas.openxmlformats.org/drawingml/2006/main" name="T"><a:themeElements/></a:theme>`
const stylesXML = `<?xml version="1.0" encoding="UTF-8" standalone="yes"?>` + "\n" + `<w:styles xmlns:w="` + foreign.NSW + `"><w:style w:type="paragraph" w:default="1" w:styleId="Normal"><w:name w:val="Normal"/></w:style></w:styles>`

func pngOp(pat int) ops.Op {
	return ops.Op{K: "image", Img: &gen.Img{Fmt: "png", W: 2, H: 2, Pat: pat, Name: "a.png"}, I: []int{0, 0, 0, 0}, F: []float64{10, 10}, S: []string{"", "", ""}}
}

// witnesses returns the minimal failing case of every known finding (written to replays/kf by
// TestWriteWitnesses).
func witnesses() map[string]Case {
	w := map[string]Case{}

	p := foreign.Minimal()
	p.DocRels = []foreign.Rel{{ID: "rId2", Type: foreign.RelHyperlink, Target: "https://example.com/", Mode: "External"}}
	w[kfTargetMode] = Case{Pkg: p}

	p = foreign.Minimal()
	p.Parts = []foreign.Part{{Name: "word/styles.xml", CT: foreign.CTStyle, Override: true, XML: stylesXML, Kind: "styles"}}
	p.DocRels = []foreign.Rel{{ID: "rId5", Type: foreign.RelStyles, Target: "styles.xml"}}
	w[kfStylesRel] = Case{Pkg: p}

	p = foreign.Minimal()
	p.Parts = []foreign.Part{{Name: "word/theme/theme1.xml", CT: themeCT, Override: true, XML: themeXML, Kind: "theme"}}
	p.DocRels = []foreign.Rel{{ID: "rId3", Type: foreign.RelTheme, Target: "theme/theme1.xml"}}
	w[kfRelIDAlloc] = Case{Pkg: p, Ops: []ops.Op{pngOp(1)}}

	// header1.xml is in the package but no section refers to it; its relationship has the id the allocator hands out next
	p = foreign.Minimal()
	p.Parts = []foreign.Part{{Name: "word/header1.xml", CT: "application/vnd.openxmlformats-officedocument.wordprocessingml.header+xml", Override: true, Kind: "header",
		XML: `<?xml version="1.0" encoding="UTF-8" standalone="yes"?>` + "\n" + `<w:hdr xmlns:w="` + foreign.NSW + `"><w:p><w:r><w:t>unused header</w:t></w:r></w:p></w:hdr>`}}
	p.DocRels = []foreign.Rel{{ID: "rId3", Type: foreign.RelHeader, Target: "header1.xml"}}
	w[kfRelIDHeader] = Case{Pkg: p, Ops: []ops.Op{{K: "header", I: []int{0}, S: []string{"first definition"}}, {K: "header", I: []int{0}, S: []string{"second definition"}}}}

	p = foreign.Minimal()
	p.PkgRels = []foreign.Rel{{ID: "rId2", Type: foreign.RelOfficeDoc, Target: "word/document.xml"}}
	w[kfPkgRelID] = Case{Pkg: p, Ops: []ops.Op{{K: "footnote", S: []string{"text", "note"}}}}

	p = foreign.Minimal()
	p.Parts = []foreign.Part{{Name: "docProps/app.xml", CT: "application/vnd.openxmlformats-officedocument.extended-properties+xml", Override: true, Kind: "app",
		XML: `<?xml version="1.0" encoding="UTF-8" standalone="yes"?>` + "\n" + `<Properties xmlns="http://schemas.openxmlformats.org/officeDocument/2006/extended-properties"><Application>Other</Application></Properties>`}}
	p.PkgRels = append(p.PkgRels, foreign.Rel{ID: "rId2", Type: foreign.RelExtProps, Target: "docProps/app.xml"})
	w[kfTplPkgRels] = Case{Pkg: p, Ops: []ops.Op{{K: "tpldoc", Data: &ops.Data{}}}}

	p = foreign.Minimal()
	p.OPCPrefix = "ns0"
	w[kfOPCPrefix] = Case{Pkg: p}

	p = foreign.Minimal()
	p.Body = []foreign.Block{para(foreign.Inline{K: "r", Run: &foreign.Run{Pieces: []foreign.Piece{{K: "t", Text: "first "}, {K: "tab"}, {K: "t", Text: "second"}}}})}
	w[kfMultiT] = Case{Pkg: p}

	p = foreign.Minimal()
	p.Body = []foreign.Block{para(run1("see "), foreign.Inline{K: "hyperlink", Name: "bm1", Kids: []foreign.Inline{run1("the link text")}}, run1(" end"))}
	w[kfInline] = Case{Pkg: p}

	p = foreign.Minimal()
	p.Body = []foreign.Block{para(run1("before")), {K: "sdt", Name: "ctl", Blocks: []foreign.Block{para(run1("inside the control"))}}, para(run1("after"))}
	w[kfBlockSdt] = Case{Pkg: p}

	p = foreign.Minimal()
	inner := foreign.Block{K: "tbl", Widths: []int{1500}, Rows: [][]foreign.Cell{{{Blocks: []foreign.Block{para(run1("inner cell"))}}}}}
	p.Body = []foreign.Block{{K: "tbl", Widths: []int{3000}, Rows: [][]foreign.Cell{{{Blocks: []foreign.Block{inner, para(run1("outer cell"))}}}}}}
	w[kfNestedTbl] = Case{Pkg: p}
	w[kfCellOrder] = Case{Pkg: p} // same package: inner table first, then the cell's own paragraph
	return w
}

// fixedCases are hand-written regression cases that every run judges first: packages with the
// pass-through features the property names and none of the input classes of the open findings, so
// every clause must hold on them.
func fixedCases() []Case {
	if os.Getenv("C04_NOFIXED") != "" { // sensitivity experiments: let the generated search find the mutant on its own
		return nil
	}
	rich := foreign.Minimal()
	rich.W, rich.R = "ns0", "rel"
	rich.Defaults = append(rich.Defaults, foreign.Default{Ext: "png", CT: "image/png"}, foreign.Default{Ext: "jpeg", CT: "image/jpeg"},
		foreign.Default{Ext: "bin", CT: "application/vnd.openxmlformats-officedocument.oleObject"}, foreign.Default{Ext: "emf", CT: "image/x-emf"})
	rich.Parts = []foreign.Part{
		{Name: "word/styles.xml", CT: foreign.CTStyle, Override: true, XML: stylesXML, Kind: "styles"},
		{Name: "word/theme/theme1.xml", CT: themeCT, Override: true, XML: themeXML, Kind: "theme"},
		{Name: "word/media/image1.png", Img: &gen.Img{Fmt: "png", W: 3, H: 3, Pat: 77, Name: "image1.png"}, Kind: "media"},
		{Name: "word/media/image0", CT: "image/png", Override: true, Img: &gen.Img{Fmt: "png", W: 2, H: 3, Pat: 78, Name: "image0"}, Kind: "media"},
		{Name: "word/media/image007.jpeg", Img: &gen.Img{Fmt: "jpeg", W: 3, H: 2, Pat: 79, Name: "image007.jpeg"}, Kind: "media"},
		{Name: "word/embeddings/oleObject1.bin", Raw: []byte{0xd0, 0xcf, 0x11, 0xe0, 1, 2, 3}, Kind: "binary"},
		{Name: "word/header1.xml", CT: "application/vnd.openxmlformats-officedocument.wordprocessingml.header+xml", Override: true, Kind: "header",
			XML:  `<?xml version="1.0" encoding="UTF-8" standalone="yes"?>` + "\n" + `<w:hdr xmlns:w="` + foreign.NSW + `" xmlns:r="` + foreign.NSR + `"><w:p><w:hyperlink r:id="rId1"><w:r><w:t>link</w:t></w:r></w:hyperlink></w:p></w:hdr>`,
			Rels: []foreign.Rel{{ID: "rId1", Type: foreign.RelHyperlink, Target: "https://example.org/", Mode: "External"}}},
		{Name: "customXml/item1.xml", XML: `<?xml version="1.0"?><d xmlns="urn:x">v</d>`, Kind: "customXml", Rels: []foreign.Rel{{ID: "rId1", Type: foreign.RelCustomProp, Target: "itemProps1.xml"}}},
		{Name: "customXml/itemProps1.xml", CT: "application/vnd.openxmlformats-officedocument.customXmlProperties+xml", Override: true, Kind: "customXmlProps",
			XML: `<?xml version="1.0"?><ds:datastoreItem xmlns:ds="http://schemas.openxmlformats.org/officeDocument/2006/customXml" ds:itemID="{1}"/>`},
	}
	rich.DocRels = []foreign.Rel{
		{ID: "rId1", Type: foreign.RelStyles, Target: "styles.xml"},
		{ID: "rId2", Type: foreign.RelTheme, Target: "theme/theme1.xml"},
		{ID: "rId3", Type: foreign.RelImage, Target: "media/image1.png"},
		{ID: "rId4", Type: foreign.RelImage, Target: "media/image0"},
		{ID: "rId5", Type: foreign.RelImage, Target: "media/image007.jpeg"},
		{ID: "rId6", Type: foreign.RelOLE, Target: "embeddings/oleObject1.bin"},
		{ID: "rId7", Type: foreign.RelHeader, Target: "header1.xml"},
		{ID: "rId8", Type: foreign.RelCustomXML, Target: "../customXml/item1.xml"},
	}
	rich.Body = []foreign.Block{
		para(run1("one "), foreign.Inline{K: "r", Run: &foreign.Run{Pieces: []foreign.Piece{{K: "t", Text: " two"}, {K: "tab"}, {K: "br"}, {K: "drawing", RelID: "rId3", N: 1}}}}),
		{K: "tbl", Widths: []int{2000, 2000}, Rows: [][]foreign.Cell{{{Blocks: []foreign.Block{para(run1("c1"))}}, {Blocks: []foreign.Block{para(run1("c2 <&>"))}}}}},
		para(run1("三")),
	}
	rich.Sect = &foreign.Sect{W: 11906, H: 16838, Margin: 1440, HeaderRefs: []foreign.HRef{{Type: "default", RelID: "rId7"}}}
	edits := []ops.Op{
		{K: "para", S: []string{"appended"}},
		pngOp(5), pngOp(6),
		{K: "image", Img: &gen.Img{Fmt: "jpeg", W: 2, H: 2, Pat: 9, Name: "b.jpg"}, I: []int{0, 0, 0, 0}, F: []float64{10, 10}, S: []string{"", "", ""}},
		{K: "footer", I: []int{0}, S: []string{"footer text"}},
		{K: "save"},
		{K: "reopen", B: []bool{true}},
		pngOp(7),
		{K: "title", S: []string{"T"}},
	}
	// header1.xml is the even-page header of the package: setting the default header must not touch it
	evenHdr := rich
	evenHdr.Sect = &foreign.Sect{W: 11906, H: 16838, Margin: 1440, HeaderRefs: []foreign.HRef{{Type: "even", RelID: "rId7"}}}
	// a package with notes parts the way Word writes them (one line, nothing between the last note and the end tag of
	// the root; CRLF after the declaration) and calls that are all REJECTED: unknown note ids, indexes outside the body,
	// page settings that are none, a picture file that does not exist. Nothing is an edit, every part stays as it was.
	notes := foreign.Minimal()
	const wordDecl = `<?xml version="1.0" encoding="UTF-8" standalone="yes"?>` + "\r\n"
	notes.Parts = []foreign.Part{
		{Name: "word/styles.xml", CT: foreign.CTStyle, Override: true, XML: stylesXML, Kind: "styles"},
		{Name: "word/footnotes.xml", CT: "application/vnd.openxmlformats-officedocument.wordprocessingml.footnotes+xml", Override: true, Kind: "footnotes",
			XML: wordDecl + `<w:footnotes xmlns:w="` + foreign.NSW + `"><w:footnote w:type="separator" w:id="-1"><w:p><w:r><w:separator/></w:r></w:p></w:footnote><w:footnote w:type="continuationSeparator" w:id="0"><w:p><w:r><w:continuationSeparator/></w:r></w:p></w:footnote><w:footnote w:id="1"><w:p><w:r><w:footnoteRef/></w:r><w:r><w:t xml:space="preserve"> first note</w:t></w:r></w:p></w:footnote></w:footnotes>`},
		{Name: "word/endnotes.xml", CT: "application/vnd.openxmlformats-officedocument.wordprocessingml.endnotes+xml", Override: true, Kind: "endnotes",
			XML: wordDecl + `<w:endnotes xmlns:w="` + foreign.NSW + `"><w:endnote w:type="separator" w:id="-1"><w:p><w:r><w:separator/></w:r></w:p></w:endnote><w:endnote w:id="1"><w:p><w:r><w:endnoteRef/></w:r><w:r><w:t xml:space="preserve"> first endnote</w:t></w:r></w:p></w:endnote></w:endnotes>`},
	}
	notes.DocRels = []foreign.Rel{
		{ID: "rId1", Type: foreign.RelStyles, Target: "styles.xml"},
		{ID: "rId2", Type: foreign.RelFootnotes, Target: "footnotes.xml"},
		{ID: "rId3", Type: foreign.RelEndnotes, Target: "endnotes.xml"},
	}
	notes.Body = []foreign.Block{para(run1("Body text"), foreign.Inline{K: "r", Run: &foreign.Run{Pieces: []foreign.Piece{{K: "fnref", N: 1}}}})}
	notes.Sect = &foreign.Sect{W: 11906, H: 16838, Margin: 1440}
	rejectedOnly := []ops.Op{
		{K: "rmfootnote", S: []string{"42"}}, {K: "rmendnote", S: []string{"42"}}, {K: "rmfootnote", S: []string{"x"}},
		{K: "rmparaat", I: []int{0}}, {K: "rmelemat", I: []int{0}}, // selector 0 = index -1
		{K: "pagesettings", I: []int{0}}, {K: "pagesettings", I: []int{1}}, {K: "imagefilebad", I: []int{0}}, {K: "imagefilebad", I: []int{1}},
	}
	plain := foreign.Minimal() // no notes parts at all: the rejected calls must not add one
	return []Case{
		{Pkg: notes, Ops: rejectedOnly},
		{Pkg: plain, Ops: rejectedOnly, OpenFile: true, SaveFile: true},
		{Pkg: rich},
		{Pkg: rich, OpenFile: true, SaveFile: true, Ops: edits},
		{Pkg: evenHdr, Ops: []ops.Op{{K: "header", I: []int{0}, S: []string{"new default header"}}, {K: "footer", I: []int{1}, S: []string{"first-page footer"}}}},
	}
}

package c04

import (
	"archive/zip"
	"bytes"
	"fmt"
	"strings"
	"time"
	"unicode/utf8"

	"pgregory.net/rapid"

	"wzverif/internal/foreign"
	"wzverif/internal/ops"
)

// ---------------------------------------------------------------------------------------------
// Character data of a w:t, written the way generic XML serialisers write it
//
// The writer of internal/foreign spells the text of every w:t as one piece of escaped character data. Other
// producers (XSLT output with cdata-section-elements, DOM serialisers, template engines that leave a comment or
// a processing instruction where a placeholder was) write the SAME text as several pieces: part of it inside a
// CDATA section, a comment or a processing instruction between two pieces. The infoset - and so the text the run
// carries - is the same; a reader sees more than one character-data token.
//
// TSpell re-spells the character data of one w:t of the rendered main part:
//
//	T     which w:t (index among the w:t elements with non-empty text, document order, modulo their number)
//	At    where the piece starts (in units: one unit = one character or one entity reference; modulo)
//	Len   how many units the piece has (cdata), modulo what is left
//	Form  cdata     units [At, At+Len) inside <![CDATA[ ]]>
//	      cdata-all the whole text inside one CDATA section
//	      comment   <!--...--> between the units At-1 and At
//	      pi        <?wz ...?> between the units At-1 and At
//	      cdata2    two CDATA sections next to each other: [At, At+Len) and the rest
type TSpell struct {
	T    int    `json:"t"`
	At   int    `json:"at"`
	Len  int    `json:"len"`
	Form string `json:"form"`
}

var tSpellForms = []string{"cdata", "cdata", "cdata-all", "comment", "comment", "pi", "cdata2"}

func genTSpell(t *rapid.T) []TSpell {
	n := rapid.IntRange(1, 3).Draw(t, "ntspell")
	out := make([]TSpell, n)
	for i := range out {
		out[i] = TSpell{T: rapid.IntRange(0, 40).Draw(t, "tspell-t"), At: rapid.IntRange(0, 12).Draw(t, "tspell-at"),
			Len: rapid.IntRange(1, 6).Draw(t, "tspell-len"), Form: rapid.SampledFrom(tSpellForms).Draw(t, "tspell-form")}
	}
	return out
}

// units cuts escaped character data into characters and entity references.
func units(esc string) []string {
	var out []string
	for i := 0; i < len(esc); {
		if esc[i] == '&' {
			if j := strings.IndexByte(esc[i:], ';'); j > 0 {
				out = append(out, esc[i:i+j+1])
				i += j + 1
				continue
			}
		}
		_, w := utf8.DecodeRuneInString(esc[i:])
		out = append(out, esc[i:i+w])
		i += w
	}
	return out
}

var unescaper = strings.NewReplacer("&lt;", "<", "&gt;", ">", "&amp;", "&", "&quot;", `"`, "&#13;", "\r", "&#10;", "\n", "&#9;", "\t")

// cdata writes units as a CDATA section; "" when they cannot stand in one (a carriage return would be normalised
// away by every XML reader, "]]>" ends the section, an entity the writer does not use stays untouched).
func cdata(us []string) string {
	raw := unescaper.Replace(strings.Join(us, ""))
	if raw == "" || strings.Contains(raw, "\r") || strings.Contains(raw, "]]>") || strings.HasSuffix(raw, "]") {
		return ""
	}
	for _, u := range us {
		if len(u) > 1 && u[0] == '&' && unescaper.Replace(u) == u {
			return ""
		}
	}
	return "<![CDATA[" + raw + "]]>"
}

type tSpan struct{ from, to int } // escaped character data of one w:t in the rendered main part

// tSpans finds the character data of every w:t (never w:delText, m:t, w:tab ...) with non-empty text.
func tSpans(main string, w string) []tSpan {
	var out []tSpan
	endTag := "</" + w + "t>"
	for _, open := range []string{"<" + w + "t>", "<" + w + `t xml:space="preserve">`} {
		for from := 0; ; {
			i := strings.Index(main[from:], open)
			if i < 0 {
				break
			}
			start := from + i + len(open)
			j := strings.Index(main[start:], endTag)
			if j < 0 {
				break
			}
			if j > 0 && !strings.Contains(main[start:start+j], "<") {
				out = append(out, tSpan{start, start + j})
			}
			from = start + j
		}
	}
	// document order
	for i := 1; i < len(out); i++ {
		for k := i; k > 0 && out[k].from < out[k-1].from; k-- {
			out[k], out[k-1] = out[k-1], out[k]
		}
	}
	return out
}

// respellT applies the re-spellings to a rendered main part and reports the forms it applied.
func respellT(main []byte, w string, sp []TSpell) ([]byte, []string) {
	if len(sp) == 0 {
		return main, nil
	}
	s := string(main)
	pfx := ""
	if w != "" {
		pfx = w + ":"
	}
	spans := tSpans(s, pfx)
	if len(spans) == 0 {
		return main, nil
	}
	repl := map[int]string{} // span index -> new character data
	var applied []string
	for _, x := range sp {
		k := x.T % len(spans)
		if _, done := repl[k]; done {
			continue
		}
		us := units(s[spans[k].from:spans[k].to])
		n := len(us)
		at := x.At % (n + 1)
		var txt string
		switch x.Form {
		case "cdata-all":
			txt = cdata(us)
		case "cdata", "cdata2":
			if at >= n {
				at = n - 1
			}
			l := 1 + (x.Len-1)%(n-at)
			c := cdata(us[at : at+l])
			if c == "" {
				break
			}
			rest := strings.Join(us[at+l:], "")
			if x.Form == "cdata2" && at+l < n {
				if c2 := cdata(us[at+l:]); c2 != "" {
					rest = c2
				}
			}
			txt = strings.Join(us[:at], "") + c + rest
		case "comment":
			txt = strings.Join(us[:at], "") + "<!-- kept by the template engine -->" + strings.Join(us[at:], "")
		case "pi":
			txt = strings.Join(us[:at], "") + `<?wz placeholder="7"?>` + strings.Join(us[at:], "")
		}
		if txt == "" {
			continue
		}
		repl[k] = txt
		form := x.Form
		if (x.Form == "comment" || x.Form == "pi") && (at == 0 || at == n) {
			form += "-at-edge"
		} else if x.Form != "cdata-all" {
			form += "-inside"
		}
		applied = append(applied, form)
	}
	if len(repl) == 0 {
		return main, nil
	}
	var b strings.Builder
	pos := 0
	for k, sp := range spans {
		if txt, ok := repl[k]; ok {
			b.WriteString(s[pos:sp.from])
			b.WriteString(txt)
			pos = sp.to
		}
	}
	b.WriteString(s[pos:])
	return []byte(b.String()), applied
}

var zipTime = time.Date(2020, 1, 2, 3, 4, 6, 0, time.UTC)

// render writes the package of a case: what Package.BytesMath writes, with the character data of some w:t of the
// main part re-spelled. Without re-spellings the bytes are exactly those of BytesMath.
func render(c Case) ([]byte, []string) {
	if len(c.TSpell) == 0 {
		return c.Pkg.BytesMath(), nil
	}
	entries := c.Pkg.PartListMath()
	var applied []string
	for i := range entries {
		if entries[i].Name == foreign.MainPart {
			entries[i].Data, applied = respellT(entries[i].Data, c.Pkg.W, c.TSpell)
		}
	}
	if len(applied) == 0 {
		return c.Pkg.BytesMath(), nil
	}
	var buf bytes.Buffer
	zw := zip.NewWriter(&buf)
	for _, e := range entries {
		h := &zip.FileHeader{Name: e.Name, Method: zip.Deflate, Modified: zipTime}
		if c.Pkg.Stored {
			h.Method = zip.Store
		}
		w, err := zw.CreateHeader(h)
		if err != nil {
			panic("c04 render: " + err.Error())
		}
		w.Write(e.Data)
	}
	if err := zw.Close(); err != nil {
		panic("c04 render: " + err.Error())
	}
	return buf.Bytes(), applied
}

// ---------------------------------------------------------------------------------------------
// Parts whose root element has no children
//
// A producer that writes a notes / numbering / comments part for every document writes an EMPTY one for a document
// without notes, lists or comments: the root element alone, self-closed (<w:endnotes xmlns:w="..."/>, also with a
// blank before "/>") or as a start and an end tag with nothing or white space between them.

var emptyRootForms = []string{"self-closed", "self-closed", "self-closed-blank", "pair", "pair-nl"}

var emptyRootOf = map[string]string{"footnotes": "footnotes", "endnotes": "endnotes", "numbering": "numbering", "comments": "comments"}

func emptyRootXML(p foreign.Package, kind, form string) string {
	root := emptyRootOf[kind]
	open := `<w:` + root + ` xmlns:w="` + foreign.NSW + `" xmlns:r="` + foreign.NSR + `"`
	decl := "<?xml version=\"1.0\" encoding=\"UTF-8\" standalone=\"yes\"?>\n"
	switch form {
	case "self-closed":
		return decl + open + "/>"
	case "self-closed-blank":
		return decl + open + " />"
	case "pair-nl":
		return decl + open + ">\n</w:" + root + ">"
	}
	return decl + open + "></w:" + root + ">"
}

// bodyRefs reports whether the body refers to footnotes (w:footnoteReference) and to numbering definitions (w:numId).
func bodyRefs(p foreign.Package) (fn, num bool) {
	var inl func(l []foreign.Inline)
	inl = func(l []foreign.Inline) {
		for _, in := range l {
			if in.Run != nil {
				for _, pc := range in.Run.Pieces {
					if pc.K == "fnref" {
						fn = true
					}
				}
			}
			inl(in.Kids)
		}
	}
	var blocks func(l []foreign.Block)
	blocks = func(l []foreign.Block) {
		for _, b := range l {
			if b.NumID != 0 {
				num = true
			}
			inl(b.Inlines)
			blocks(b.Blocks)
			for _, row := range b.Rows {
				for _, c := range row {
					blocks(c.Blocks)
				}
			}
		}
	}
	blocks(p.Body)
	return
}

// genEmptyParts empties some of the notes / numbering / comments parts the package has (only parts the body does
// not refer into, so that the package stays consistent) and, when the package has no endnotes part, sometimes adds
// an empty one the way such producers do. Returns "kind:form" of what it did.
func genEmptyParts(t *rapid.T, p *foreign.Package) []string {
	fn, num := bodyRefs(*p)
	var out []string
	seen := map[string]bool{}
	for i, pt := range p.Parts {
		if _, ok := emptyRootOf[pt.Kind]; !ok || pt.Img != nil || pt.Raw != nil || len(pt.Rels) > 0 {
			continue
		}
		seen[pt.Kind] = true
		if (pt.Kind == "footnotes" && fn) || (pt.Kind == "numbering" && num) {
			continue
		}
		if rapid.IntRange(0, 1).Draw(t, "empty-"+pt.Kind) != 0 {
			continue
		}
		form := rapid.SampledFrom(emptyRootForms).Draw(t, "emptyform")
		p.Parts[i].XML = emptyRootXML(*p, pt.Kind, form)
		out = append(out, pt.Kind+":"+form)
	}
	if !seen["endnotes"] && !p.NoDocRels && rapid.Bool().Draw(t, "add-empty-endnotes") {
		ids := map[string]bool{}
		hi := 0
		for _, r := range p.DocRels {
			ids[r.ID] = true
			var k int
			if _, err := fmt.Sscanf(r.ID, "rId%d", &k); err == nil && k > hi {
				hi = k
			}
		}
		id := fmt.Sprintf("rId%d", hi+1)
		if p.IDStyle == "named" || p.IDStyle == "mixed" {
			id = "endnotesRel"
		}
		for ids[id] {
			id += "x"
		}
		form := rapid.SampledFrom(emptyRootForms).Draw(t, "emptyform")
		p.Parts = append(p.Parts, foreign.Part{Name: "word/endnotes.xml", CT: "application/vnd.openxmlformats-officedocument.wordprocessingml.endnotes+xml", Override: true, Kind: "endnotes", XML: emptyRootXML(*p, "endnotes", form)})
		p.DocRels = append(p.DocRels, foreign.Rel{ID: id, Type: foreign.RelEndnotes, Target: "endnotes.xml"})
		out = append(out, "endnotes:"+form)
	}
	return out
}

// ---------------------------------------------------------------------------------------------
// Questions a caller asks an opened document about its notes and lists. They read (GetFootnoteCount,
// GetEndnoteCount) or name a list that does not exist (RestartNumbering of an id no package and no history has:
// there is nothing to restart), so like the style-manager lookups they must not change anything in the saved package.
var noteLookupKinds = []string{"qfncount", "qencount", "qrestartnone"}

func isNoteLookup(k string) bool { return k == "qfncount" || k == "qencount" || k == "qrestartnone" }

func init() {
	for _, k := range noteLookupKinds {
		bodyNeutral[k] = true
	}
}

func doNoteLookup(x *ops.Exec, o ops.Op) {
	switch o.K {
	case "qfncount":
		x.Doc.GetFootnoteCount()
	case "qencount":
		x.Doc.GetEndnoteCount()
	case "qrestartnone":
		x.Doc.RestartNumbering("no-such-list-7341")
	}
}

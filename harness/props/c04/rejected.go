package c04

import (
	"errors"
	"os"
	"path/filepath"
	"strings"

	"github.com/zerx-lab/wordZero/pkg/document"
	"pgregory.net/rapid"

	"wzverif/internal/gen"
	"wzverif/internal/ops"
)

// Calls a caller can make on an opened package that the library may REJECT (error / false), executed by this
// package because the verdict needs the outcome of every single call: a rejected call is no edit, so it puts
// nothing into the regenerated set, explains no new part and cannot excuse a text loss.
//
//	rmfootnote / rmendnote   RemoveFootnote / RemoveEndnote(S[0]): ids the package has, ids it does not have, non-numbers
//	rmparaat / rmelemat      RemoveParagraphAt / RemoveElementAt(Sel(I[0])): -1, every valid index, n, n+1 (same selector as ops)
//	imagefilebad             AddImageFromFile: I[0] = 0 path that does not exist, 1 a file that is no image under an image name, 2 text file
//	cellimgbad               AddCellImageFromData on a table appended earlier: I[3] = 0 bytes that are no image, 1 no bytes, 2 a picture aimed at a cell outside the table
//	imagebad                 AddImageFromData with bytes that are no image / no bytes (I[0]) under a declared format
//	hfbadtype                Add(Formatted)Header/Footer[WithPageNumber] with a HeaderFooterType outside default/first/even (S[0]); B[0] = footer, I[0] = which of the three calls
//	pagesettings             SetPageSettings: I[0] = 0 nil, 1 custom size 0x0, 2 custom size beyond the documented range, 3 orientation that is none, 4 valid
//	mlist                    CreateMultiLevelList: I[0] = 0 no items, 1 levels outside 0..8, 2 valid items
//	notecfgnil               SetFootnoteConfig(nil) (documented: defaults)
var localKinds = map[string]bool{"rmfootnote": true, "rmendnote": true, "rmparaat": true, "rmelemat": true, "imagefilebad": true, "cellimgbad": true,
	"imagebad": true, "hfbadtype": true, "pagesettings": true, "mlist": true, "notecfgnil": true}

// kinds drawn by genLocal (rmparaat / rmelemat also come from the shared generator)
var localDraw = []string{"rmfootnote", "rmfootnote", "rmfootnote", "rmendnote", "rmendnote", "rmparaat", "rmelemat", "imagefilebad", "cellimgbad", "imagebad",
	"hfbadtype", "hfbadtype", "pagesettings", "mlist", "notecfgnil"}

var noteIDs = []string{"2", "1", "3", "42", "7", "0", "-1", "", "x", "02", "2 ", "99999999999999999999"}
var badHFTypes = []string{"", "odd", "Default", "bogus", "first "}

func isLocal(k string) bool { return localKinds[k] }

var errFalse = errors.New("the call returned false")
var errNoTarget = errors.New("no table appended earlier: call not made")

func genLocal(t *rapid.T) ops.Op {
	o := ops.Op{K: rapid.SampledFrom(localDraw).Draw(t, "localkind")}
	switch o.K {
	case "rmfootnote", "rmendnote":
		o.S = []string{rapid.SampledFrom(noteIDs).Draw(t, "noteid")}
	case "rmparaat", "rmelemat":
		// -1, n and n+1 (rejected) as often as a valid index
		o.I = []int{rapid.IntRange(0, 50).Draw(t, "sel")}
	case "imagefilebad":
		o.I = []int{rapid.IntRange(0, 2).Draw(t, "how")}
	case "cellimgbad":
		o.I = []int{rapid.IntRange(0, 5).Draw(t, "tsel"), rapid.IntRange(0, 1).Draw(t, "row"), rapid.IntRange(0, 1).Draw(t, "col"), rapid.IntRange(0, 2).Draw(t, "how")}
	case "imagebad":
		o.I = []int{rapid.IntRange(0, 1).Draw(t, "how"), rapid.IntRange(0, 2).Draw(t, "fmt")}
	case "hfbadtype":
		o.S = []string{rapid.SampledFrom(badHFTypes).Draw(t, "hftype"), "text"}
		o.B = []bool{rapid.Bool().Draw(t, "footer")}
		o.I = []int{rapid.IntRange(0, 2).Draw(t, "call")}
	case "pagesettings":
		o.I = []int{rapid.IntRange(0, 4).Draw(t, "how")}
	case "mlist":
		o.I = []int{rapid.IntRange(0, 2).Draw(t, "how")}
	}
	return o
}

var notAnImage = []byte("this is not an image: <html>\x00\x01\x02</html>")

func opI(o ops.Op, i int) int {
	if i < len(o.I) {
		return o.I[i]
	}
	return 0
}
func opS(o ops.Op, i int) string {
	if i < len(o.S) {
		return o.S[i]
	}
	return ""
}
func opB(o ops.Op, i int) bool {
	if i < len(o.B) {
		return o.B[i]
	}
	return false
}

// doLocal makes the call. nil = the library accepted it; errNoTarget = the call could not be made (counts as
// nothing); any other error = the library rejected it.
func doLocal(x *ops.Exec, o ops.Op) error {
	d := x.Doc
	switch o.K {
	case "rmfootnote":
		return d.RemoveFootnote(opS(o, 0))
	case "rmendnote":
		return d.RemoveEndnote(opS(o, 0))
	case "rmparaat":
		if !d.RemoveParagraphAt(ops.Sel(opI(o, 0), len(d.Body.GetParagraphs()))) {
			return errFalse
		}
	case "rmelemat":
		ok := d.RemoveElementAt(ops.Sel(opI(o, 0), len(d.Body.Elements)))
		x.Paras = d.Body.GetParagraphs()
		x.Tables = d.Body.GetTables()
		if !ok {
			return errFalse
		}
	case "imagefilebad":
		dir := filepath.Join(x.Dir, "badimg")
		os.MkdirAll(dir, 0o755)
		p := filepath.Join(dir, "missing.png")
		switch opI(o, 0) {
		case 1:
			p = filepath.Join(dir, "fake.png")
			if os.WriteFile(p, notAnImage, 0o644) != nil {
				return errNoTarget
			}
		case 2:
			p = filepath.Join(dir, "notes.txt")
			if os.WriteFile(p, []byte("plain text\n"), 0o644) != nil {
				return errNoTarget
			}
		}
		_, err := d.AddImageFromFile(p, nil)
		if err == nil {
			x.Paras = d.Body.GetParagraphs()
		}
		return err
	case "cellimgbad":
		if len(x.Tables) == 0 {
			return errNoTarget
		}
		t := x.Tables[ops.In(opI(o, 0), len(x.Tables))]
		row, col := opI(o, 1), opI(o, 2)
		var data []byte
		switch opI(o, 3) {
		case 0:
			data = notAnImage
		case 1:
			data = nil
		default:
			data = gen.Img{Fmt: "png", W: 2, H: 2, Pat: 3, Name: "c.png"}.Bytes()
			row, col = 90+row, 90+col
		}
		_, err := d.AddCellImageFromData(t, row, col, data, 10)
		return err
	case "imagebad":
		var data []byte
		if opI(o, 0) == 0 {
			data = notAnImage
		}
		fm := []document.ImageFormat{document.ImageFormatPNG, document.ImageFormatJPEG, document.ImageFormatGIF}[ops.In(opI(o, 1), 3)]
		_, err := d.AddImageFromData(data, "bad.png", fm, 10, 10, nil)
		if err == nil {
			x.Paras = d.Body.GetParagraphs()
		}
		return err
	case "hfbadtype":
		ty := document.HeaderFooterType(opS(o, 0))
		switch {
		case opI(o, 0) == 1 && opB(o, 0):
			return d.AddFooterWithPageNumber(ty, opS(o, 1), true)
		case opI(o, 0) == 1:
			return d.AddHeaderWithPageNumber(ty, opS(o, 1), true)
		case opI(o, 0) == 2 && opB(o, 0):
			return d.AddFormattedFooter(ty, &document.HeaderFooterConfig{Text: opS(o, 1)})
		case opI(o, 0) == 2:
			return d.AddFormattedHeader(ty, &document.HeaderFooterConfig{Text: opS(o, 1)})
		case opB(o, 0):
			return d.AddFooter(ty, opS(o, 1))
		}
		return d.AddHeader(ty, opS(o, 1))
	case "pagesettings":
		var s *document.PageSettings
		if opI(o, 0) > 0 {
			s = d.GetPageSettings()
		}
		switch opI(o, 0) {
		case 1:
			s.Size, s.CustomWidth, s.CustomHeight = document.PageSizeCustom, 0, 0
		case 2:
			s.Size, s.CustomWidth, s.CustomHeight = document.PageSizeCustom, 5000, 9000
		case 3:
			s.Orientation = document.PageOrientation("diagonal")
		case 4:
			s.Size, s.Orientation = document.PageSizeA5, document.OrientationLandscape
		}
		return d.SetPageSettings(s)
	case "mlist":
		var items []document.ListItem
		switch opI(o, 0) {
		case 1:
			items = []document.ListItem{{Text: "deep", Level: 12, Type: document.ListTypeNumber}, {Text: "neg", Level: -3, Type: document.ListTypeBullet, BulletSymbol: document.BulletTypeDot}}
		case 2:
			items = []document.ListItem{{Text: "one", Level: 0, Type: document.ListTypeNumber, StartNumber: 1}, {Text: "two", Level: 1, Type: document.ListTypeBullet, BulletSymbol: document.BulletTypeDash}}
		}
		err := d.CreateMultiLevelList(items)
		x.Paras = d.Body.GetParagraphs()
		return err
	case "notecfgnil":
		return d.SetFootnoteConfig(nil)
	}
	return nil
}

// hfKindOf: the header/footer kind ("header:default", "footer:bogus" ...) a header/footer call sets.
func hfKindOf(o ops.Op) string {
	switch o.K {
	case "header", "headerpn", "fheader":
		return "header:" + hfKind(opI(o, 0))
	case "footer", "footerpn", "ffooter":
		return "footer:" + hfKind(opI(o, 0))
	case "hfbadtype":
		if opB(o, 0) {
			return "footer:" + opS(o, 0)
		}
		return "header:" + opS(o, 0)
	}
	return ""
}

// regeneratedLocal: parts of the opened package an ACCEPTED call of a local kind rewrites by design.
func regeneratedLocal(o ops.Op, hf map[string][]string) []string {
	switch o.K {
	case "rmfootnote":
		return []string{"word/footnotes.xml"}
	case "rmendnote":
		return []string{"word/endnotes.xml"}
	case "hfbadtype":
		return hf[hfKindOf(o)]
	case "mlist":
		if opI(o, 0) == 0 {
			return nil // no items: nothing to number
		}
		return []string{"word/numbering.xml"}
	case "notecfgnil":
		return []string{"word/settings.xml"}
	}
	return nil
}

// explainsNew reports whether an ACCEPTED call of this kind is documented to create a part of that name in a package
// that lacks it: pictures create media, header/footer calls create a header/footer part, list calls the numbering
// part, note calls the notes part, the note configuration the settings
// part, property calls the docProps parts, style-referring calls the styles part.
func explainsNew(o ops.Op, name string) bool {
	switch o.K {
	case "image", "imagefile", "cellimg", "imagefilebad", "cellimgbad", "imagebad":
		return strings.HasPrefix(name, "word/media/")
	case "header", "headerpn", "fheader":
		return isHFPart(name, "header")
	case "footer", "footerpn", "ffooter":
		return isHFPart(name, "footer")
	case "hfbadtype":
		if opB(o, 0) {
			return isHFPart(name, "footer")
		}
		return isHFPart(name, "header")
	case "listitem", "bullet", "numbered":
		return name == "word/numbering.xml"
	case "mlist":
		return name == "word/numbering.xml" && opI(o, 0) != 0
	case "footnote":
		return name == "word/footnotes.xml"
	case "endnote":
		return name == "word/endnotes.xml"
	case "notecfg", "notecfgnil":
		return name == "word/settings.xml"
	case "props", "title", "author":
		return name == "docProps/core.xml" || name == "docProps/app.xml"
	}
	return false
}

func isHFPart(name, prefix string) bool {
	return strings.HasPrefix(name, "word/"+prefix) && strings.HasSuffix(name, ".xml") && !strings.Contains(name[len("word/"):], "/")
}

// ---------------------------------------------------------------------------------------------
// textual forms of XML parts: the same infoset written the way different producers write it

// textForms: how the XML text of an extra part is re-spelled. "" = as the writer emits it (declaration, newline,
// everything else on one line with nothing between the last child and the end tag of the root).
var textForms = []string{"", "", "", "nodecl", "decl-oneline", "crlf", "bom", "nl-before-root-end", "indented-root-end", "trailing-nl"}

func splitDecl(s string) (decl, rest string) {
	if !strings.HasPrefix(s, "<?xml") {
		return "", s
	}
	i := strings.Index(s, "?>")
	if i < 0 {
		return "", s
	}
	decl, rest = s[:i+2], s[i+2:]
	rest = strings.TrimLeft(rest, "\r\n")
	return
}

// respell returns the part text in another textual form; the infoset is the same (only white space outside the
// root element, between the last child and the root's end tag, the declaration and a byte order mark differ).
func respell(xml, form string) string {
	decl, rest := splitDecl(xml)
	sep := ""
	if decl != "" && strings.HasPrefix(xml[len(decl):], "\n") {
		sep = "\n"
	}
	rootEnd := strings.LastIndex(rest, "</")
	selfClosing := strings.HasSuffix(strings.TrimRight(rest, " \r\n"), "/>") && strings.Count(rest, "<") == 1
	switch form {
	case "nodecl":
		return rest
	case "decl-oneline":
		if decl == "" {
			return xml
		}
		return decl + rest
	case "crlf":
		if decl == "" {
			return xml
		}
		return decl + "\r\n" + rest
	case "bom":
		return "\uFEFF" + xml
	case "nl-before-root-end":
		if selfClosing || rootEnd <= 0 {
			return xml
		}
		return decl + sep + rest[:rootEnd] + "\n" + rest[rootEnd:]
	case "indented-root-end":
		if selfClosing || rootEnd <= 0 {
			return xml
		}
		return decl + sep + rest[:rootEnd] + "\r\n  " + rest[rootEnd:] + "\r\n"
	case "trailing-nl":
		return xml + "\n"
	}
	return xml
}
